//! SIM-PAR: schedule simulator for src/parallel.rs.
//! usage: sim-par <C07|C08|C15|C16> [--tier quick|thorough] [--seed N] [--replay FILE] [--digest]

mod par;
mod sched;

use par::*;
use par::max_record_extent;
use serde_json::{json, Value};
use std::collections::BTreeMap;
use vcore::{Check, Opts, Rng, RunResult, Stats, Tier, Violation};

struct ParCheck {
    id: &'static str,
}

fn hash_bytes(b: &[u8]) -> u64 {
    let mut h: u64 = 0xcbf29ce484222325;
    for c in b {
        h ^= *c as u64;
        h = h.wrapping_mul(0x100000001b3);
    }
    h
}

fn features(scn: &ParScn) -> std::collections::BTreeSet<String> {
    let mut f = std::collections::BTreeSet::new();
    f.insert(format!("api:{:?}", scn.api));
    f.insert(format!("consumer:{}", match scn.consumer { Consumer::Drain => "drain", Consumer::StopAfter(_) => "stop", Consumer::Never => "never" }));
    if scn.fail_reader_init {
        f.insert("fault:reader_init".into());
    }
    if scn.fail_dataset_init_at.is_some() {
        f.insert("fault:dataset_init".into());
    }
    if scn.fail_record_init_at.is_some() {
        f.insert("fault:record_init".into());
    }
    if scn.err_at.is_some() {
        f.insert("fault:reader_error".into());
    }
    if scn.io_fault_at.is_some() {
        f.insert("fault:io".into());
    }
    f
}

fn classify_failure(msg: &str) -> &'static str {
    if msg.contains("deadlock") {
        "deadlock"
    } else if msg.contains("exceeded max_steps") || msg.contains("max_steps") {
        "step_bound"
    } else {
        "panic"
    }
}

/// Judge one outcome for property `id`. All rules of all four properties are computed; only
/// those of the running property are returned.
fn judge(id: &str, scn: &ParScn, o: &Outcome, st: &mut Stats) -> Vec<Violation> {
    let mut all: Vec<Violation> = vec![];
    // a concurrent second call is judged like a call of its own
    if let (Some(ts), Some(th), None) = (&scn.twin, &o.hist.twin, &o.failure) {
        st.probe("probe.two_calls_at_the_same_time");
        let o2 = Outcome { hist: (**th).clone(), failure: None, schedule: vec![], diverged: 0 };
        for mut v in judge(id, ts, &o2, st) {
            v.detail = format!("[second call running at the same time] {}", v.detail);
            all.push(v);
        }
    }
    let h = &o.hist;
    let mut add = |rule: &str, d: String| all.push(Violation::new(rule, d));
    let generic = matches!(scn.api, Api::Generic | Api::GenericInit);
    let per_record = matches!(scn.api, Api::Fasta | Api::Fastq | Api::FastaInit | Api::FastqInit | Api::Records);
    let init_fault = scn.fail_reader_init || scn.fail_dataset_init_at.is_some() || scn.fail_record_init_at.is_some();
    let q = scn.queue_len.max(1);

    // ---- termination (C08) / errors instead of panics (C15)
    if let Some(f) = &o.failure {
        let class = classify_failure(f);
        st.count(&format!("outcome.{}", class), 1);
        match class {
            "deadlock" => {
                add("C08.deadlock", format!("no task runnable before all had finished: {}", f));
                if scn.consumer == Consumer::Drain && !init_fault {
                    add("C07.not_delivered_deadlock", format!("the draining consumer never gets the remaining record sets: {}", f));
                }
                if init_fault {
                    add("C15.init_failure_hangs", format!("a failing init closure made the call hang instead of returning Err: {}", f));
                }
            }
            "step_bound" => add("C08.step_bound", format!("execution exceeded the step bound (livelock): {}", f)),
            _ => {
                // a panic: an init failure must come back as Err (C15); anything else is reported
                // under the running property
                if init_fault {
                    add("C15.init_failure_panics", format!("failing init closure made the call panic instead of returning Err: {}", f));
                } else if scn.err_at.is_some() || scn.io_fault_at.is_some() {
                    add("C15.error_path_panics", format!("panic on the error path: {}", f));
                }
                add("C08.panic", format!("panic: {}", f));
                add("C07.panic", format!("panic: {}", f));
                add("C16.panic", format!("panic: {}", f));
            }
        }
        return all.into_iter().filter(|v| v.rule.starts_with(id)).collect();
    }
    st.count("outcome.returned", 1);
    for (r, d) in &h.bad {
        add(r, d.clone());
    }
    if !h.returned {
        add("C08.not_returned", "execution finished but the parallel function did not return".into());
    }
    if h.live_after > 0 {
        add("C08.threads_left_behind", format!("{} of {} threads created by the call were still alive (blocked) after it had returned and every other task had been given the processor", h.live_after, h.spawned));
    }

    // ---- expected stream
    let drain = scn.consumer == Consumer::Drain;
    if generic {
        let n_ok = match scn.err_at {
            Some(e) => e.min(scn.n_sets),
            None => scn.n_sets,
        };
        let err_expected = scn.err_at.map(|e| e <= scn.n_sets).unwrap_or(false) && scn.err_at.map(|e| e <= scn.n_sets).unwrap_or(false);
        // pairing: every set arrives with the output computed for that very set
        let mut seen: BTreeMap<usize, usize> = BTreeMap::new();
        let mut errs = 0;
        let mut ended = false;
        let mut last: Option<usize> = None;
        let mut in_order = true;
        for a in &h.arrivals {
            match a {
                Arrival::Set { content, out, tag, .. } => {
                    if ended {
                        add("C07.after_end", "a set arrived after the end marker".into());
                    }
                    match content {
                        Some(c) => {
                            *seen.entry(*c).or_insert(0) += 1;
                            if *out == u64::MAX {
                                add("C07.mispaired_output", format!("set {} (data set tag {}) arrived with an output that was not computed from it", c, tag));
                            }
                            if let Some(e) = scn.err_at {
                                if *c > e {
                                    add("C15.set_after_error", format!("set {} was read after the failing set {} but reached the consumer", c, e));
                                }
                            }
                            if let Some(l) = last {
                                if *c < l {
                                    in_order = false;
                                }
                            }
                            last = Some(*c);
                        }
                        None => add("C07.unfilled_set", format!("a data set (tag {}) arrived that was never filled", tag)),
                    }
                }
                Arrival::Err(e) => {
                    errs += 1;
                    if scn.err_at.is_none() || !e.contains(&format!("GenErr({})", scn.err_at.unwrap())) {
                        add("C15.wrong_error", format!("consumer received {} but the reader fails with {:?}", e, scn.err_at));
                    }
                }
                Arrival::End => ended = true,
                _ => {}
            }
        }
        for (c, k) in &seen {
            if *k > 1 {
                add("C07.duplicate", format!("set {} reached the consumer {} times", c, k));
                add("C15.duplicate", format!("set {} reached the consumer {} times", c, k));
            }
            if *c >= scn.n_sets {
                add("C07.invented", format!("set {} was never produced (reader has {} sets)", c, scn.n_sets));
            }
        }
        if errs > 1 {
            add("C15.error_repeated", format!("the reader's error reached the consumer {} times", errs));
        }
        let normal = h.result.as_deref().map(|r| r == "()" || r.starts_with("Ok")).unwrap_or(false);
        if drain && !init_fault && normal {
            for c in 0..n_ok {
                if !seen.contains_key(&c) {
                    add("C07.lost", format!("set {} never reached the draining consumer (arrivals: {})", c, h.arrivals.len()));
                    add("C15.lost_before_error", format!("set {} precedes the failing set but never reached the draining consumer", c));
                    break;
                }
            }
            if !ended {
                add("C07.no_end_marker", "draining consumer never received the end marker".into());
                add("C15.no_end_marker", "draining consumer never received the end marker after the error".into());
            }
            if err_expected && scn.err_at.unwrap() < scn.n_sets.max(scn.err_at.unwrap() + 1) && errs == 0 && scn.err_at.unwrap() <= scn.n_sets {
                add("C15.error_lost", format!("reader failed at set {} but the draining consumer never received the error", scn.err_at.unwrap()));
            }
            if scn.n_threads == 1 && !in_order {
                add("C07.order_single_worker", "with one worker thread the sets did not arrive in file order".into());
            }
            if scn.err_at.is_some() && h.arrivals.iter().position(|a| matches!(a, Arrival::Err(_))).map(|p| p + 2 < h.arrivals.len()).unwrap_or(false) {
                st.probe("probe.error_overtook_results");
            }
        }
        // init failures come back as Err of the caller's error type (C15)
        if scn.api == Api::GenericInit {
            let res = h.result.clone().unwrap_or_default();
            // a failing closure only matters if that call really happened: the initial fill loop
            // stops early when the reader thread has already finished (empty input), so the
            // number of dataset_init calls depends on the schedule
            let expect_err = scn.fail_reader_init || scn.fail_dataset_init_at.map(|k| (h.dataset_inits as usize) > k).unwrap_or(false);
            if expect_err && !res.starts_with("Err(") {
                add("C15.init_failure_not_returned", format!("an init closure failed but the call returned {}", res));
            }
            if !expect_err && !res.starts_with("Ok(") {
                add("C15.spurious_error", format!("no init closure failed but the call returned {}", res));
            }
            if scn.fail_reader_init && !res.contains("Reader") && res.starts_with("Err(") && scn.fail_dataset_init_at.is_none() {
                add("C15.wrong_init_error", format!("reader_init failed but the call returned {}", res));
            }
        }
    } else {
        // real readers: compare with sequential reading of the same input
        let (seq_recs, seq_err) = sequential(scn);
        let mut arrived: Vec<(usize, u64)> = vec![];
        let mut sets: Vec<Vec<usize>> = vec![];
        let mut errs: Vec<String> = vec![];
        let mut ended = false;
        for a in &h.arrivals {
            match a {
                Arrival::Rec { idx, out, .. } => {
                    if *out == 0 {
                        add("C07.mispaired_output", format!("record {} arrived with an output that was not computed from it (recycled output not overwritten?)", idx));
                    }
                    arrived.push((*idx, *out));
                }
                Arrival::Set { out, recs, .. } => {
                    if *out == u64::MAX {
                        add("C07.mispaired_output", "a record set arrived with outputs that were not computed from it".into());
                    }
                    if recs.windows(2).any(|w| w[1] != w[0] + 1) {
                        add("C07.order_within_set", format!("records inside one set are not consecutive in file order: {:?}", recs));
                    }
                    if ended {
                        add("C07.after_end", "a set arrived after the end marker".into());
                    }
                    sets.push(recs.clone());
                    for r in recs {
                        arrived.push((*r, 1));
                    }
                }
                Arrival::Err(e) => errs.push(e.clone()),
                Arrival::End => ended = true,
            }
        }
        let mut count: BTreeMap<usize, usize> = BTreeMap::new();
        for (i, _) in &arrived {
            *count.entry(*i).or_insert(0) += 1;
        }
        for (i, k) in &count {
            if *k > 1 {
                add("C07.duplicate", format!("record {} reached the consumer {} times", i, k));
                add("C15.duplicate", format!("record {} reached the consumer {} times", i, k));
            }
            if !seq_recs.iter().any(|r| r.0 == *i) {
                add("C07.invented", format!("record {} reached the consumer but sequential reading does not return it", i));
                add("C15.record_after_error", format!("record {} reached the consumer but sequential reading stops before it", i));
            }
        }
        if matches!(scn.api, Api::FastaInit | Api::FastqInit) {
            // consecutive arrivals with the same data-set tag belong to one record set (the set
            // the consumer holds cannot arrive again before it was handed back): inside a set
            // the records are consecutive in file order
            let mut prev: Option<(u32, usize)> = None;
            for a in &h.arrivals {
                if let Arrival::Rec { idx, tag, .. } = a {
                    if let Some((pt, pi)) = prev {
                        if pt == *tag && *idx != pi + 1 {
                            add("C07.order_within_set", format!("record {} follows record {} inside one record set (data set {})", idx, pi, tag));
                            break;
                        }
                    }
                    prev = Some((*tag, *idx));
                }
            }
        }
        if per_record {
            // exactly file order with one worker
            if scn.n_threads == 1 && arrived.windows(2).any(|w| w[1].0 != w[0].0 + 1) {
                add("C07.order_single_worker", format!("with one worker thread records did not arrive in file order: {:?}", arrived.iter().map(|x| x.0).collect::<Vec<_>>()));
            }
            for (i, o) in &arrived {
                if let Some(r) = seq_recs.iter().find(|r| r.0 == *i) {
                    if *o != 0 && *o != r.1 {
                        add("C07.mispaired_output", format!("record {} arrived with the output of another record", i));
                    }
                }
            }
        }
        if scn.n_threads == 1 && !per_record {
            let flat: Vec<usize> = sets.iter().flatten().copied().collect();
            if flat.windows(2).any(|w| w[1] != w[0] + 1) {
                add("C07.order_single_worker", format!("with one worker thread sets did not arrive in file order: {:?}", sets));
            }
        }
        let res = h.result.clone().unwrap_or_default();
        let init_api = matches!(scn.api, Api::FastaInit | Api::FastqInit);
        let expect_init_err = init_api
            && (scn.fail_reader_init
                || scn.fail_dataset_init_at.map(|k| (h.dataset_inits as usize) > k).unwrap_or(false)
                // a record-data initialiser fails inside a worker: only a consumer that drains is
                // certain to reach that set's result
                || (drain && scn.fail_record_init_at.map(|k| (h.record_inits as usize) > k).unwrap_or(false)));
        if drain && !init_fault {
            if per_record {
                // the function returns Ok(None) or the error sequential reading reports
                match &seq_err {
                    None => {
                        if res != "Ok(None)" {
                            add("C15.spurious_error", format!("sequential reading succeeds but the parallel function returned {}", res));
                        }
                        for r in &seq_recs {
                            if !count.contains_key(&r.0) {
                                add("C07.lost", format!("record {} never reached the draining consumer", r.0));
                                break;
                            }
                        }
                    }
                    Some(e) => {
                        let want1 = format!("Err({})", e);
                        let want2 = format!("Err(Fasta({:?}))", e);
                        let want3 = format!("Err(Fastq({:?}))", e);
                        if res != want1 && res != want2 && res != want3 {
                            add("C15.error_differs", format!("sequential reading reports {} but the parallel function returned {}", e, res));
                        }
                    }
                }
            } else {
                match &seq_err {
                    None => {
                        if !errs.is_empty() {
                            add("C15.spurious_error", format!("sequential reading succeeds but the consumer received {:?}", errs));
                        }
                        for r in &seq_recs {
                            if !count.contains_key(&r.0) {
                                add("C07.lost", format!("record {} never reached the draining consumer", r.0));
                                break;
                            }
                        }
                    }
                    Some(e) => {
                        if errs.len() != 1 || &errs[0] != e {
                            add("C15.error_differs", format!("sequential reading reports {} but the consumer received {:?}", e, errs));
                        }
                        for r in &seq_recs {
                            if !count.contains_key(&r.0) {
                                add("C15.lost_before_error", format!("record {} precedes the error but never reached the draining consumer", r.0));
                                break;
                            }
                        }
                    }
                }
                if !ended {
                    add("C07.no_end_marker", "draining consumer never received the end marker".into());
                }
            }
        }
        if init_api {
            if expect_init_err && !res.starts_with("Err(") {
                add("C15.init_failure_not_returned", format!("an init closure failed but the call returned {}", res));
            }
            if scn.fail_reader_init && res.starts_with("Err(") && !res.contains("Reader") && scn.fail_dataset_init_at.is_none() {
                add("C15.wrong_init_error", format!("reader_init failed but the call returned {}", res));
            }
        }
        if seq_err.is_some() && !arrived.is_empty() {
            st.probe("probe.error_after_records");
        }
    }

    // ---- C16: fixed number of recycled data sets
    if h.dataset_inits as usize > q + 1 {
        add("C16.too_many_datasets", format!("{} data sets were created with queue length {}", h.dataset_inits, q));
    }
    if h.tags.len() > q + 1 {
        add("C16.too_many_identities", format!("{} distinct data sets were seen by reader/worker/consumer with queue length {}", h.tags.len(), q));
    }
    if h.scope_pending_max > scn.n_threads.max(1) as usize + 2 {
        // a crossbeam scope keeps the handle, the result and the stack of every thread that was
        // spawned in it and not joined until the scope ends: threads per batch make memory grow
        // with the input
        add("C16.unjoined_threads_accumulate", format!("{} scoped threads were held unjoined at the same time ({} worker threads requested, {} threads spawned in total): their handles and stacks stay allocated until the call returns", h.scope_pending_max, scn.n_threads, h.spawned));
    }
    if let Some(r) = &h.runahead {
        add("C16.runahead", r.clone());
    }
    if let Some(r) = &h.runahead_work {
        add("C16.runahead_vs_processed", r.clone());
    }
    if h.bytes_bound_checked > 0 {
        st.probe("probe.bytes_pulled_bound_checked");
    }
    // per-record outputs are recycled with their data set: each of the queue_len+1 sets creates at
    // most as many outputs as its largest batch had records
    if matches!(scn.api, Api::FastaInit | Api::FastqInit) && !init_fault {
        let mut max_batch = 0usize;
        let mut run = 0usize;
        let mut prev: Option<u32> = None;
        for a in &h.arrivals {
            if let Arrival::Rec { tag, .. } = a {
                if prev == Some(*tag) {
                    run += 1;
                } else {
                    run = 1;
                }
                prev = Some(*tag);
                max_batch = max_batch.max(run);
            }
        }
        // (only when everything reached the consumer: otherwise outputs may have been created for
        // sets the consumer never saw)
        let complete = h.result.as_deref() == Some("Ok(None)");
        if drain && complete && h.record_inits as usize > (q + 1) * max_batch.max(1) {
            add("C16.too_many_record_outputs", format!("{} per-record outputs were created although the {} data sets never held more than {} records at once", h.record_inits, q + 1, max_batch));
        }
        if max_batch >= 257 {
            st.probe("probe.batches_of_hundreds_of_records");
        }
    }
    if scn.api == Api::Records && !init_fault && scn.io_fault_at.is_none() {
        // same bound for parallel_records(), with the batch size bounded through the buffer size
        let ext = max_record_extent(&scn.input).max(1);
        let min_ext = scn.input.len().checked_div(scn.input.matches("\n@r").count() + 1).unwrap_or(1).max(4);
        let cap_eff = scn.cap.max(3).max(2 * (ext + 2));
        let bound = (q + 1) * (cap_eff / min_ext.min(ext).max(1) + 2) * 2;
        if h.result.as_deref() == Some("Ok(None)") && h.record_inits as usize > bound {
            add("C16.too_many_record_outputs", format!("parallel_records created {} per-record outputs; {} data sets with at most ~{} records each cannot need more than {}", h.record_inits, q + 1, cap_eff / min_ext.max(1) + 2, bound));
        }
    }
    if h.fills_ok > q + 1 {
        st.probe("probe.recycling_needed");
    }
    if h.max_runahead >= q as i64 {
        st.probe("probe.reader_ran_full_queue_ahead");
    }
    if h.consumer_left_early {
        st.probe("probe.consumer_left_early");
    }
    all.into_iter().filter(|v| v.rule.starts_with(id)).collect()
}

impl Check for ParCheck {
    fn id(&self) -> &str {
        self.id
    }
    fn engine(&self) -> &str {
        "sim-par"
    }
    fn budget(&self, tier: Tier) -> u64 {
        let q = match self.id {
            "C16" => 60_000,
            _ => 100_000,
        };
        match tier {
            Tier::Quick => q,
            Tier::Thorough => q * 40,
        }
    }
    fn generate(&self, rng: &Rng, tier: Tier, _idx: u64) -> Value {
        serde_json::to_value(gen_scn(self.id, rng, tier == Tier::Thorough)).unwrap()
    }
    fn run(&self, scn: &Value, st: &mut Stats) -> RunResult {
        let s: ParScn = match serde_json::from_value(scn.clone()) {
            Ok(s) => s,
            Err(e) => {
                return RunResult { violations: vec![Violation::new("harness.bad_scenario", format!("{}", e))], log_hash: 0 };
            }
        };
        let o = execute(&s);
        if std::env::var("VERIF_DEBUG").is_ok() {
            eprintln!("DEBUG outcome: failure={:?} result={:?} arrivals={:?} dataset_inits={} tags={:?} fills_started={} fills_ok={} next_started={} max_runahead={} live_after={} spawned={} schedule_len={} diverged={}", o.failure, o.hist.result, o.hist.arrivals, o.hist.dataset_inits, o.hist.tags, o.hist.fills_started, o.hist.fills_ok, o.hist.next_started, o.hist.max_runahead, o.hist.live_after, o.hist.spawned, o.schedule.len(), o.diverged);
        }
        st.count("step.scheduler_decisions", o.schedule.len() as u64);
        st.count("step.threads_spawned", o.hist.spawned as u64);
        st.count(&format!("op.api.{:?}", s.api), 1);
        st.count(&format!("op.sched.{}", match s.sched { SchedSpec::Random => "random", SchedSpec::Pct(_, _) => "pct", SchedSpec::Sticky(_) => "sticky" }), 1);
        if s.fail_reader_init {
            st.count("fault.reader_init_fails", 1);
        }
        if s.fail_dataset_init_at.is_some() {
            st.count("fault.dataset_init_fails", 1);
        }
        if s.fail_record_init_at.is_some() {
            st.count("fault.record_init_fails", 1);
        }
        if s.err_at.is_some() {
            st.count("fault.reader_error", 1);
        }
        if s.io_fault_at.is_some() {
            st.count("fault.io_error", 1);
        }
        if s.worker_stall > 0 {
            st.count("fault.worker_stall", 1);
        }
        if s.consumer_stall > 0 {
            st.count("fault.slow_consumer", 1);
        }
        match s.consumer {
            Consumer::Drain => {}
            Consumer::StopAfter(_) => st.count("fault.consumer_stops_early", 1),
            Consumer::Never => st.count("fault.consumer_never_asks", 1),
        }
        let sched_bytes: Vec<u8> = o.schedule.iter().flat_map(|x| x.to_le_bytes()).collect();
        let sh = hash_bytes(&sched_bytes);
        st.set_insert("schedules", sh);
        let arr = format!("{:?}", o.hist.arrivals);
        st.set_insert("arrivals", hash_bytes(arr.as_bytes()));
        // non-trivial: more than one thread interleaved (at least one context switch between
        // distinct tasks after the first set was filled)
        let switches = o.schedule.windows(2).filter(|w| w[0] != w[1]).count();
        if switches >= 3 {
            st.set_insert("nontrivial", vcore::mix(sh, hash_bytes(scn.to_string().as_bytes())));
        }
        let mut v = judge(self.id, &s, &o, st);
        if o.failure.is_none() && o.hist.live_after > 0 {
            // threads of the call are still alive although everything else has finished: they
            // belong to a finished shuttle execution, nothing more can be run in this process
            let f = features(&s);
            let mut fv = v.iter().find(|x| x.rule.ends_with("threads_left_behind")).cloned().unwrap_or_else(|| {
                Violation::new(&format!("{}.threads_left_behind", self.id), format!("{} of {} threads created by the call were still alive after it had returned", o.hist.live_after, o.hist.spawned))
            });
            fv.features = f;
            if self.id == "C08" {
                vcore::report_fatal(self, scn, &fv);
            } else {
                eprintln!("HARNESS-ERROR: the parallel call left {} thread(s) behind (a C08 violation); the {} run cannot continue in this process", o.hist.live_after, self.id);
                std::process::exit(2);
            }
        }
        if !v.is_empty() {
            let f = features(&s);
            for x in v.iter_mut() {
                x.features = f.clone();
            }
        }
        let log_hash = vcore::mix(sh, hash_bytes(format!("{:?}{:?}{:?}", o.hist.arrivals, o.hist.result, o.failure).as_bytes()));
        RunResult { violations: v, log_hash }
    }
    fn shrink(&self, scn: &Value) -> Vec<Value> {
        match serde_json::from_value::<ParScn>(scn.clone()) {
            Ok(s) => shrink(&s).into_iter().map(|x| serde_json::to_value(x).unwrap()).collect(),
            Err(_) => vec![],
        }
    }
    fn rule_text(&self) -> String {
        let what = match self.id {
            "C07" => "draining consumer; oracle over the recorded history of consumer observations: every set / record exactly once, output computed from that very set / record (recycled outputs overwritten), records inside a set consecutive in file order, file order with one worker, end marker received",
            "C08" => "consumers that drain, stop after k results (every k) or never ask; reader error at a random set index; I/O error at a random source call; invalid records; each init closure failing at a random call; empty inputs. Oracle: shuttle reports deadlock (no runnable task while tasks are unfinished) and step-bound overrun; a flag set when the function returns must never be seen by a worker / fill_data / init closure / source read; every thread the call created must have finished once every other task was given the processor",
            "C15" => "reader error at set k, invalid FASTA start / invalid FASTQ record at a random index, I/O error at a random source call, reader_init / dataset_init / rset_data_init / record_data_init failing at call j; oracle: error exactly once, nothing read after it arrives, earlier sets at most once and all of them for a draining consumer, then the end marker; per-record functions return Err equal to what sequential reading of the same input reports; init failures come back as Err, never as a panic or deadlock",
            "C16" => "long inputs (up to 40/60 sets, queue 1..4), slow consumers, sticky schedules; dataset_init / Default calls <= queue+1, distinct data-set identities seen by reader, worker and consumer <= queue+1, at every fill_data entry fills_started - next_calls_started <= queue",
            _ => "",
        };
        format!("one scenario = one execution of the real parallel.rs on shuttle threads under our seeded scheduler (uniform random / PCT-style with 1..4 priority change points / sticky with p=50..97%), threads 1..4, queue 1..4, API in {{read_parallel, read_parallel_init with a scripted generic reader; parallel_fasta(_init), parallel_fastq(_init), read_parallel+ReusableReader over the real readers with capacity 3..200 and chunked sources}}, worker and consumer stalls; {}. Non-trivial: the recorded schedule has >= 3 switches between distinct tasks; distinct = distinct (schedule, scenario) hash. distinct_schedules / distinct_arrival_orders are reported separately.", what)
    }
    fn assumptions(&self) -> Vec<String> {
        vec![
            "shuttle 0.9.3's models of thread, Mutex and mpsc (channel, sync_channel incl. rendezvous, disconnect wake-ups) are faithful to std".into(),
            "the crossbeam thread::scope stub (sim-par/shims/crossbeam-utils) mirrors the documented semantics parallel.rs relies on".into(),
            "sampled schedules: bounded liveness within the step budget, not a proof of deadlock freedom".into(),
            "atomics / memory ordering are not modelled (parallel.rs uses none itself)".into(),
        ]
    }
    fn components(&self) -> Value {
        json!({
            "real": [
                "/repo/src/parallel.rs (built with --cfg seq_io_verif: only the mpsc import is switched), /repo/src/fasta.rs, fastq.rs, lib.rs, policy.rs",
                "scoped_threadpool 0.1.9 source with three import lines retargeted to the shuttle-backed runtime (generated and diff-checked by tools/gen_shims.sh)",
                "buffer-redux, memchr"
            ],
            "stub": [
                "shuttle 0.9.3 models of std::thread, std::sync::{Mutex, mpsc} in place of std / the OS",
                "SimSched (our scheduler: random / PCT / sticky, recording + replay) in place of the OS scheduler",
                "crossbeam_utils::thread::scope stub (~80 lines) on shuttle threads",
                "scripted generic parallel::Reader with tagged data sets; ChunkSource (io::Read) for the real readers"
            ]
        })
    }
    fn sample(&self, scn: &Value) -> Value {
        let mut v = scn.clone();
        if let Some(s) = v.get("input").and_then(|x| x.as_str()) {
            if s.len() > 200 {
                v["input"] = json!(format!("{}… ({} bytes)", &s[..200], s.len()));
            }
        }
        v
    }
    fn serial_prefix(&self) -> u64 {
        // a defect that leaves threads of the system under test behind poisons the process: find it
        // before 16 workers share the damage
        16
    }
    fn expected_probes(&self) -> Vec<&'static str> {
        match self.id {
            "C16" => vec!["recycling_needed", "reader_ran_full_queue_ahead"],
            "C08" => vec!["consumer_left_early"],
            "C15" => vec!["error_overtook_results", "error_after_records"],
            _ => vec!["recycling_needed"],
        }
    }
}

fn main() {
    let args: Vec<String> = std::env::args().collect();
    if args.len() < 2 {
        eprintln!("usage: sim-par <C07|C08|C15|C16> [--tier quick|thorough] [--seed N] [--replay FILE]");
        std::process::exit(2);
    }
    let id: &'static str = match args[1].as_str() {
        "C07" => "C07",
        "C08" => "C08",
        "C15" => "C15",
        "C16" => "C16",
        other => {
            eprintln!("HARNESS-ERROR: sim-par does not serve {}", other);
            std::process::exit(2);
        }
    };
    let opts = match Opts::from_env_and_args(&args[2..]) {
        Ok(o) => o,
        Err(e) => {
            eprintln!("HARNESS-ERROR: {}", e);
            std::process::exit(2);
        }
    };
    let check = ParCheck { id };
    std::process::exit(vcore::main_for(&check, &opts));
}
