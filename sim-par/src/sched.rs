//! Our own seeded scheduler for shuttle: uniform random, PCT-style priorities, and
//! "sticky" (keep the running task with probability p: slow / stalled threads and long
//! run-ahead). Every choice is recorded as a task-id list; `replay` consumes such a list.

use shuttle::scheduler::{Schedule, Scheduler, Task, TaskId};
use std::collections::HashMap;
use std::sync::{Arc, Mutex};
use vcore::Rng;

#[derive(Clone, Debug, PartialEq)]
pub enum Kind {
    Random,
    /// depth (number of priority change points + 1), guessed schedule length
    Pct(usize, usize),
    /// probability (percent) of keeping the current task when it is runnable
    Sticky(u32),
}

pub struct SimSched {
    kind: Kind,
    rng: Rng,
    started: bool,
    replay: Option<Vec<u32>>,
    pos: usize,
    pub recorded: Arc<Mutex<Vec<u32>>>,
    /// number of decisions where the replayed task was not runnable (divergence)
    pub diverged: Arc<Mutex<usize>>,
    prio: HashMap<usize, u64>,
    change_points: Vec<usize>,
    steps: usize,
    low: u64,
}

impl SimSched {
    pub fn new(kind: Kind, seed: u64, replay: Option<Vec<u32>>) -> SimSched {
        let rng = Rng::new(seed);
        let mut change_points = vec![];
        if let Kind::Pct(d, len) = &kind {
            for _ in 1..*d {
                change_points.push(rng.below((*len).max(1) as u64) as usize);
            }
        }
        SimSched {
            kind,
            rng,
            started: false,
            replay,
            pos: 0,
            recorded: Arc::new(Mutex::new(vec![])),
            diverged: Arc::new(Mutex::new(0)),
            prio: HashMap::new(),
            change_points,
            steps: 0,
            low: 1 << 20,
        }
    }
}

impl Scheduler for SimSched {
    fn new_execution(&mut self) -> Option<Schedule> {
        if self.started {
            None
        } else {
            self.started = true;
            Some(Schedule::new(0))
        }
    }

    fn next_task(&mut self, runnable: &[&Task], current: Option<TaskId>, is_yielding: bool) -> Option<TaskId> {
        let mut ids: Vec<usize> = runnable.iter().map(|t| usize::from(t.id())).collect();
        ids.sort();
        let cur: Option<usize> = current.map(usize::from);
        let cur_runnable = cur.map(|c| ids.contains(&c)).unwrap_or(false);
        self.steps += 1;
        let choice: usize = if let Some(rp) = &self.replay {
            let want = rp.get(self.pos).map(|x| *x as usize);
            self.pos += 1;
            match want {
                Some(w) if ids.contains(&w) => w,
                other => {
                    if other.is_some() {
                        *self.diverged.lock().unwrap() += 1;
                    }
                    // schedule exhausted or not applicable any more (minimised scenario): keep the
                    // current task if possible, else the lowest id; a yielding task steps aside
                    let others: Vec<usize> = ids.iter().copied().filter(|i| Some(*i) != cur).collect();
                    if is_yielding && !others.is_empty() {
                        others[0]
                    } else if cur_runnable {
                        cur.unwrap()
                    } else {
                        ids[0]
                    }
                }
            }
        } else {
            match &self.kind {
                Kind::Random => {
                    let pool: Vec<usize> = if is_yielding && ids.len() > 1 {
                        ids.iter().copied().filter(|i| Some(*i) != cur).collect()
                    } else {
                        ids.clone()
                    };
                    pool[self.rng.below(pool.len() as u64) as usize]
                }
                Kind::Sticky(p) => {
                    let others: Vec<usize> = ids.iter().copied().filter(|i| Some(*i) != cur).collect();
                    if cur_runnable && !is_yielding && (others.is_empty() || self.rng.chance(*p as u64, 100)) {
                        cur.unwrap()
                    } else if others.is_empty() {
                        ids[0]
                    } else {
                        others[self.rng.below(others.len() as u64) as usize]
                    }
                }
                Kind::Pct(_, _) => {
                    for i in &ids {
                        if !self.prio.contains_key(i) {
                            // random distinct-ish high priorities
                            let p = (1 << 32) + self.rng.below(1 << 30);
                            self.prio.insert(*i, p);
                        }
                    }
                    if let Some(c) = cur {
                        if self.change_points.contains(&self.steps) || is_yielding {
                            self.low -= 1;
                            self.prio.insert(c, self.low);
                        }
                    }
                    *ids.iter().max_by_key(|i| (self.prio[*i], usize::MAX - **i)).unwrap()
                }
            }
        };
        self.recorded.lock().unwrap().push(choice as u32);
        Some(TaskId::from(choice))
    }

    fn next_u64(&mut self) -> u64 {
        self.rng.next_u64()
    }
}
