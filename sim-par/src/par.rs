//! SIM-PAR scenarios: the real src/parallel.rs (+ real scoped_threadpool, real readers) on
//! shuttle threads under our scheduler. One scenario = one execution.

use crate::sched::{Kind, SimSched};
use seq_io::parallel::{self, ParallelRecordsets, ReusableReader};
use seq_io::{fasta, fastq};
use seq_io_verif_rt::thread as rt;
use serde_derive::{Deserialize, Serialize};
use std::collections::BTreeSet;
use std::io::{self, Read};
use std::sync::{Arc, Mutex};
use vcore::Rng;

#[derive(Serialize, Deserialize, Clone, Debug, PartialEq)]
pub enum Api {
    /// read_parallel with the scripted generic reader
    Generic,
    /// read_parallel_init with the scripted generic reader and fallible init closures
    GenericInit,
    /// parallel_fasta / parallel_fastq (per record)
    Fasta,
    Fastq,
    /// parallel_fasta_init / parallel_fastq_init with fallible init closures
    FastaInit,
    FastqInit,
    /// read_parallel + ReusableReader over the real fastq / fasta reader (record-set level)
    ReusableFastq,
    ReusableFasta,
    /// parallel_records() over the real fastq reader
    Records,
}

#[derive(Serialize, Deserialize, Clone, Debug, PartialEq)]
pub enum Consumer {
    Drain,
    /// return after k results (k >= 1 for the per-record functions)
    StopAfter(usize),
    /// never ask for a result (record-set level APIs only)
    Never,
}

#[derive(Serialize, Deserialize, Clone, Debug, PartialEq)]
pub enum SchedSpec {
    Random,
    Pct(usize, usize),
    Sticky(u32),
}

#[derive(Serialize, Deserialize, Clone, Debug, PartialEq)]
pub struct ParScn {
    pub api: Api,
    pub n_threads: u32,
    pub queue_len: usize,
    /// generic reader: number of sets and the set index at which fill_data returns Err
    #[serde(default)]
    pub n_sets: usize,
    #[serde(default)]
    pub err_at: Option<usize>,
    /// real readers
    #[serde(default)]
    pub input: String,
    #[serde(default)]
    pub cap: usize,
    #[serde(default)]
    pub script: Vec<u32>,
    /// source call index at which the source returns an I/O error
    #[serde(default)]
    pub io_fault_at: Option<usize>,
    /// which error (see ChunkSource::read)
    #[serde(default)]
    pub io_fault_kind: u8,
    pub consumer: Consumer,
    #[serde(default)]
    pub fail_reader_init: bool,
    #[serde(default)]
    pub fail_dataset_init_at: Option<usize>,
    #[serde(default)]
    pub fail_record_init_at: Option<usize>,
    /// yields injected into the worker / the consumer (stall injection)
    #[serde(default)]
    pub worker_stall: u32,
    #[serde(default)]
    pub consumer_stall: u32,
    pub sched: SchedSpec,
    pub sched_seed: u64,
    /// explicit schedule (task ids); when present it replaces the seeded scheduler
    #[serde(default)]
    pub schedule: Option<Vec<u32>>,
    /// GenericInit only: reader_init blocks until the caller's side signals: 1 = the first
    /// dataset_init call, 2 = the consumer function when it starts
    #[serde(default)]
    pub reader_waits_for: u8,
    /// record-set level APIs: after the end marker the consumer asks this many more times (each
    /// further call has to return, with the end marker again)
    #[serde(default)]
    pub pull_past_end: u8,
    /// a second call (its own api / input / consumer; scheduler fields unused) that runs
    /// concurrently in the same execution; judged on its own
    #[serde(default)]
    pub twin: Option<Box<ParScn>>,
}

#[derive(Clone, Debug, PartialEq)]
pub enum Arrival {
    Set { tag: u32, content: Option<usize>, out: u64, recs: Vec<usize> },
    Rec { idx: usize, out: u64, tag: u32 },
    Err(String),
    End,
}

#[derive(Default, Debug, Clone)]
pub struct Hist {
    pub reader_inits: u32,
    pub dataset_inits: u32,
    pub record_inits: u32,
    pub fills_started: usize,
    pub fills_ok: usize,
    pub next_started: usize,
    pub pulled_past_end: usize,
    pub runahead: Option<String>,
    pub max_runahead: i64,
    pub tags: BTreeSet<u32>,
    pub arrivals: Vec<Arrival>,
    pub work_events: Vec<(u32, usize)>,
    pub bad: Vec<(String, String)>,
    pub returned: bool,
    pub result: Option<String>,
    pub live_after: usize,
    pub spawned: usize,
    /// largest number of scoped threads held unjoined by a crossbeam scope at any time
    pub scope_pending_max: usize,
    /// history of the concurrent second call (ParScn::twin)
    pub twin: Option<Box<Hist>>,
    pub err_overtook_results: bool,
    pub consumer_left_early: bool,
    /// worker closures that have run to their end (set level)
    pub works_finished: usize,
    /// a fill / source read happened although the data sets handed back so far cannot explain it
    pub runahead_work: Option<String>,
    pub bytes_bound_checked: u64,
}

pub type SharedHist = Arc<Mutex<Hist>>;

fn note_activity(h: &SharedHist, what: &str) {
    let mut g = h.lock().unwrap();
    if g.returned {
        g.bad.push(("C08.activity_after_return".into(), format!("{} ran after the parallel function had returned", what)));
    }
}

// ---------------------------------------------------------------------------
// generic reader
// ---------------------------------------------------------------------------

thread_local! {
    static TAGS: std::cell::Cell<u32> = const { std::cell::Cell::new(0) };
}

fn next_tag() -> u32 {
    TAGS.with(|t| {
        let v = t.get();
        t.set(v + 1);
        v
    })
}

#[derive(Debug)]
pub struct GenSet {
    pub tag: u32,
    pub content: Option<usize>,
    pub payload: Vec<u8>,
}

thread_local! {
    static DEFAULT_HIST: std::cell::RefCell<Option<SharedHist>> = const { std::cell::RefCell::new(None) };
}

impl Default for GenSet {
    fn default() -> GenSet {
        // read_parallel creates its data sets through Default: count it
        DEFAULT_HIST.with(|h| {
            if let Some(h) = h.borrow().as_ref() {
                h.lock().unwrap().dataset_inits += 1;
            }
        });
        GenSet { tag: next_tag(), content: None, payload: vec![] }
    }
}

#[derive(Debug, Clone, PartialEq)]
pub struct GenErr(pub usize);

/// per-record output of 4 KiB (size thresholds on recycled outputs are reachable with a few
/// hundred records); `Default` creations are counted like `record_data_init` calls
pub struct BigOut {
    pub v: u64,
    pub pad: [u64; 511],
}

impl BigOut {
    pub fn raw() -> BigOut {
        BigOut { v: 0, pad: [0; 511] }
    }
}

impl Default for BigOut {
    fn default() -> BigOut {
        DEFAULT_HIST.with(|h| {
            if let Some(h) = h.borrow().as_ref() {
                h.lock().unwrap().record_inits += 1;
            }
        });
        BigOut::raw()
    }
}

pub struct GenReader {
    next: usize,
    n: usize,
    err_at: Option<usize>,
    queue_len: usize,
    hist: SharedHist,
}

pub fn payload_len(k: usize) -> usize {
    (k * 7 + 3) % 6
}

pub fn gen_out(content: usize, payload: &[u8]) -> u64 {
    content as u64 * 31 + 7 + payload.len() as u64 * 1000
}

impl parallel::Reader for GenReader {
    type DataSet = GenSet;
    type Err = GenErr;
    fn fill_data(&mut self, d: &mut GenSet) -> Option<Result<(), GenErr>> {
        note_activity(&self.hist, "fill_data");
        {
            let mut h = self.hist.lock().unwrap();
            h.fills_started += 1;
            h.tags.insert(d.tag);
            let ahead = h.fills_started as i64 - h.next_started as i64;
            if ahead > h.max_runahead {
                h.max_runahead = ahead;
            }
            if ahead > self.queue_len as i64 && h.runahead.is_none() {
                h.runahead = Some(format!("fill {} started while the consumer had started only {} next() calls (queue length {})", h.fills_started, h.next_started, self.queue_len));
            }
            // the reader only gets a data set back after the consumer received a result, and a
            // result only exists after its worker finished: fills <= queue_len + finished works
            if h.fills_started > self.queue_len + h.works_finished && h.runahead_work.is_none() {
                h.runahead_work = Some(format!("fill {} started while only {} worker results existed (queue length {}): the reader got a data set back that the consumer should still hold", h.fills_started, h.works_finished, self.queue_len));
            }
        }
        rt::yield_now();
        let k = self.next;
        if Some(k) == self.err_at {
            self.next += 1;
            return Some(Err(GenErr(k)));
        }
        if k >= self.n {
            return None;
        }
        self.next += 1;
        d.content = Some(k);
        // recycled payload vectors are longer or shorter than what the new set needs
        d.payload.clear();
        d.payload.extend(std::iter::repeat(k as u8).take(payload_len(k)));
        self.hist.lock().unwrap().fills_ok += 1;
        note_activity(&self.hist, "fill_data (exit)");
        Some(Ok(()))
    }
}

// ---------------------------------------------------------------------------
// byte source for the real readers (Send)
// ---------------------------------------------------------------------------

pub struct ChunkSource {
    data: Arc<Vec<u8>>,
    pos: usize,
    script: Vec<u32>,
    i: usize,
    calls: usize,
    fail_at: Option<usize>,
    fail_kind: u8,
    hist: Option<SharedHist>,
    /// Some((queue_len, capacity)): every record fits the buffer, so each fill_data call pulls at
    /// most `capacity` bytes and bytes pulled <= (queue_len + finished works) * capacity
    bound: Option<(usize, usize)>,
}

impl ChunkSource {
    pub fn new(data: Arc<Vec<u8>>, script: &[u32], fail_at: Option<usize>, hist: Option<SharedHist>) -> ChunkSource {
        ChunkSource { data, pos: 0, script: script.to_vec(), i: 0, calls: 0, fail_at, fail_kind: 0, hist, bound: None }
    }
    pub fn with_fault_kind(mut self, k: u8) -> ChunkSource {
        self.fail_kind = k;
        self
    }
    pub fn with_bound(mut self, queue_len: usize, cap: usize) -> ChunkSource {
        self.bound = Some((queue_len, cap));
        self
    }
}

/// largest distance between two record starts (records are "@r<i>" / ">r<i>" at line starts)
pub fn max_record_extent(input: &str) -> usize {
    let b = input.as_bytes();
    let mut starts = vec![0usize];
    for i in 1..b.len().saturating_sub(1) {
        if b[i - 1] == b'\n' && (b[i] == b'@' || b[i] == b'>') && b[i + 1] == b'r' {
            starts.push(i);
        }
    }
    starts.push(b.len());
    starts.windows(2).map(|w| w[1] - w[0]).max().unwrap_or(0)
}

impl Read for ChunkSource {
    fn read(&mut self, buf: &mut [u8]) -> io::Result<usize> {
        if let Some(h) = &self.hist {
            note_activity(h, "source read");
            // a scheduling point inside fill_data of the real readers (state that only exists
            // while a reader is inside the source is visible to the other threads)
            rt::yield_now();
        }
        let c = self.calls;
        self.calls += 1;
        if Some(c) == self.fail_at {
            // (kinds a reader might be tempted to treat like Interrupted included)
            return Err(match self.fail_kind % 8 {
                0 => io::Error::from(io::ErrorKind::BrokenPipe),
                1 => io::Error::from(io::ErrorKind::WouldBlock),
                2 => io::Error::from(io::ErrorKind::TimedOut),
                3 => io::Error::from(io::ErrorKind::UnexpectedEof),
                4 => io::Error::new(io::ErrorKind::Other, "injected"),
                5 => io::Error::from(io::ErrorKind::InvalidData),
                6 => io::Error::from_raw_os_error(5),
                _ => io::Error::from_raw_os_error(11),
            });
        }
        let mut want = usize::MAX;
        if !self.script.is_empty() {
            let d = self.script[self.i % self.script.len()];
            self.i += 1;
            if d == 0 {
                // at most one interruption in a row (script entries are cyclic)
                return Err(io::Error::from(io::ErrorKind::Interrupted));
            }
            want = d as usize;
        }
        let n = want.min(buf.len()).min(self.data.len() - self.pos);
        buf[..n].copy_from_slice(&self.data[self.pos..self.pos + n]);
        self.pos += n;
        if let (Some((q, cap)), Some(h)) = (self.bound, &self.hist) {
            if n > 0 {
                let mut h = h.lock().unwrap();
                h.bytes_bound_checked += 1;
                let allowed = (q + h.works_finished) * cap;
                if self.pos > allowed && h.runahead_work.is_none() {
                    h.runahead_work = Some(format!("{} bytes had been pulled from the source when only {} record sets had been processed (queue length {}, capacity {}, every record fits): more than queue_len + processed sets were filled", self.pos, h.works_finished, q, cap));
                }
            }
        }
        Ok(n)
    }
}

// ---------------------------------------------------------------------------
// record identity for the real readers: heads are "r<idx>"
// ---------------------------------------------------------------------------

pub fn rec_index(head: &[u8]) -> usize {
    let s = String::from_utf8_lossy(head);
    s.trim_start_matches('r').split(' ').next().and_then(|x| x.parse().ok()).unwrap_or(usize::MAX)
}

pub fn rec_hash(head: &[u8], seq: &[u8]) -> u64 {
    let mut h: u64 = 0xcbf29ce484222325;
    for c in head.iter().chain(seq.iter()) {
        h ^= *c as u64;
        h = h.wrapping_mul(0x100000001b3);
    }
    h | 1
}

/// what sequential reading of the same input reports: (index, hash) per record, then the error
pub fn sequential(scn: &ParScn) -> (Vec<(usize, u64)>, Option<String>) {
    let data = Arc::new(scn.input.clone().into_bytes());
    let mut recs = vec![];
    let mut err = None;
    let fasta = matches!(scn.api, Api::Fasta | Api::FastaInit | Api::ReusableFasta);
    if fasta {
        use fasta::Record;
        let mut r = fasta::Reader::with_capacity(ChunkSource::new(data, &scn.script, scn.io_fault_at, None).with_fault_kind(scn.io_fault_kind), scn.cap.max(3));
        while let Some(x) = r.next() {
            match x {
                Ok(rec) => recs.push((rec_index(rec.head()), rec_hash(rec.head(), &rec.owned_seq()))),
                Err(e) => {
                    err = Some(format!("{:?}", e));
                    break;
                }
            }
        }
    } else {
        use fastq::Record;
        let mut r = fastq::Reader::with_capacity(ChunkSource::new(data, &scn.script, scn.io_fault_at, None).with_fault_kind(scn.io_fault_kind), scn.cap.max(3));
        while let Some(x) = r.next() {
            match x {
                Ok(rec) => recs.push((rec_index(rec.head()), rec_hash(rec.head(), rec.seq()))),
                Err(e) => {
                    err = Some(format!("{:?}", e));
                    break;
                }
            }
        }
    }
    (recs, err)
}

// ---------------------------------------------------------------------------
// execution
// ---------------------------------------------------------------------------

#[derive(Debug, Clone)]
pub struct Outcome {
    pub hist: Hist,
    /// panic / deadlock / step-bound message from the shuttle execution
    pub failure: Option<String>,
    pub schedule: Vec<u32>,
    pub diverged: usize,
}

#[derive(Debug)]
pub enum InitErr {
    Reader,
    DataSet(usize),
    Record(usize),
    Gen(GenErr),
    Fasta(String),
    Fastq(String),
}

impl From<GenErr> for InitErr {
    fn from(e: GenErr) -> Self {
        InitErr::Gen(e)
    }
}
impl From<fasta::Error> for InitErr {
    fn from(e: fasta::Error) -> Self {
        InitErr::Fasta(format!("{:?}", e))
    }
}
impl From<fastq::Error> for InitErr {
    fn from(e: fastq::Error) -> Self {
        InitErr::Fastq(format!("{:?}", e))
    }
}

fn stall(n: u32) {
    for _ in 0..n {
        rt::yield_now();
    }
}

/// consumer loop shared by the record-set level APIs
fn consume_sets<D, E: std::fmt::Debug, O>(
    scn: &ParScn,
    hist: &SharedHist,
    rsets: &mut ParallelRecordsets<D, E, O>,
    describe: impl Fn(&mut D, O) -> Arrival,
) where
    D: Send,
    E: Send,
    O: Send,
{
    let limit = match scn.consumer {
        Consumer::Never => {
            hist.lock().unwrap().consumer_left_early = true;
            return;
        }
        Consumer::StopAfter(k) => k,
        Consumer::Drain => usize::MAX,
    };
    let mut got = 0;
    while got < limit {
        stall(scn.consumer_stall);
        // counted immediately before the call (no scheduling point in between), which keeps the
        // run-ahead bound `fills_started - next_started <= queue_len` sound
        hist.lock().unwrap().next_started += 1;
        match rsets.next() {
            None => {
                hist.lock().unwrap().arrivals.push(Arrival::End);
                for _ in 0..scn.pull_past_end {
                    hist.lock().unwrap().next_started += 1;
                    let a = match rsets.next() {
                        None => Arrival::End,
                        Some(Ok((d, o))) => describe(d, o),
                        Some(Err(e)) => Arrival::Err(format!("{:?}", e)),
                    };
                    let mut h = hist.lock().unwrap();
                    h.pulled_past_end += 1;
                    h.arrivals.push(a);
                }
                return;
            }
            Some(Ok((d, o))) => {
                let a = describe(d, o);
                hist.lock().unwrap().arrivals.push(a);
            }
            Some(Err(e)) => {
                hist.lock().unwrap().arrivals.push(Arrival::Err(format!("{:?}", e)));
            }
        }
        got += 1;
    }
    hist.lock().unwrap().consumer_left_early = true;
}

fn body(scn: &ParScn, hist: &SharedHist) {
    TAGS.with(|t| t.set(0));
    rt::reset_counters();
    DEFAULT_HIST.with(|h| *h.borrow_mut() = Some(hist.clone()));
    // a second, independent call running at the same time in the same process (own reader, own
    // closures, own history): whatever one call does must not leak into the other
    let twin = scn.twin.as_ref().map(|t| {
        let t: ParScn = (**t).clone();
        let h2: SharedHist = Arc::new(Mutex::new(Hist::default()));
        let h3 = h2.clone();
        let jh = rt::spawn(move || {
            let r = call(&t, &h3);
            let mut h = h3.lock().unwrap();
            h.returned = true;
            h.result = Some(r);
        });
        (jh, h2)
    });
    let result = call(scn, hist);
    if let Some((jh, h2)) = twin {
        let _ = jh.join();
        let t = h2.lock().unwrap().clone();
        hist.lock().unwrap().twin = Some(Box::new(t));
    }
    finish(hist, result);
}

/// one call of a parallel function as the scenario describes it; returns the Debug rendering of
/// what the function returned
fn call(scn: &ParScn, hist: &SharedHist) -> String {
    let q = scn.queue_len.max(1);
    let nt = scn.n_threads.max(1);
    let data = Arc::new(scn.input.clone().into_bytes());
    let result: String = match scn.api {
        Api::Generic => {
            let reader = GenReader { next: 0, n: scn.n_sets, err_at: scn.err_at, queue_len: q, hist: hist.clone() };
            let h1 = hist.clone();
            let h2 = hist.clone();
            let ws = scn.worker_stall;
            parallel::read_parallel(
                reader,
                nt,
                q,
                move |d: &mut GenSet| {
                    note_activity(&h1, "worker");
                    stall(ws);
                    let c = d.content.unwrap_or(usize::MAX);
                    {
                        let mut h = h1.lock().unwrap();
                        h.work_events.push((d.tag, c));
                        h.tags.insert(d.tag);
                    }
                    let o = gen_out(c, &d.payload);
                    note_activity(&h1, "worker (exit)");
                    h1.lock().unwrap().works_finished += 1;
                    o
                },
                |rsets| {
                    consume_sets(scn, &h2, rsets, |d: &mut GenSet, o| Arrival::Set { tag: d.tag, content: d.content, out: if o == gen_out(d.content.unwrap_or(usize::MAX), &d.payload) { o } else { u64::MAX }, recs: vec![] });
                },
            );
            "()".into()
        }
        Api::GenericInit => {
            let h0 = hist.clone();
            let h1 = hist.clone();
            let h2 = hist.clone();
            let h3 = hist.clone();
            let ws = scn.worker_stall;
            let fail_reader = scn.fail_reader_init;
            let fail_ds = scn.fail_dataset_init_at;
            let (n_sets, err_at) = (scn.n_sets, scn.err_at);
            let (sig_tx, sig_rx) = seq_io_verif_rt::mpsc::channel::<()>();
            let wait_rx = if scn.reader_waits_for > 0 { Some(sig_rx) } else { None };
            let sig_ds = if scn.reader_waits_for == 1 { Some(sig_tx.clone()) } else { None };
            let sig_fn = if scn.reader_waits_for == 2 { Some(sig_tx.clone()) } else { None };
            drop(sig_tx);
            let r: Result<(), InitErr> = parallel::read_parallel_init::<_, InitErr, _, InitErr, _, _, InitErr, _, _, _>(
                nt,
                q,
                move || {
                    note_activity(&h0, "reader_init");
                    h0.lock().unwrap().reader_inits += 1;
                    rt::yield_now();
                    if let Some(rx) = wait_rx {
                        // a lazily initialised reader that needs something the caller provides
                        let _ = rx.recv();
                    }
                    if fail_reader {
                        Err(InitErr::Reader)
                    } else {
                        Ok(GenReader { next: 0, n: n_sets, err_at, queue_len: q, hist: h0.clone() })
                    }
                },
                move || {
                    note_activity(&h3, "dataset_init");
                        rt::yield_now();
                    if let Some(tx) = &sig_ds {
                        let _ = tx.send(());
                    }
                    let k = {
                        let mut h = h3.lock().unwrap();
                        h.dataset_inits += 1;
                        h.dataset_inits as usize - 1
                    };
                    if Some(k) == fail_ds {
                        return Err(InitErr::DataSet(k));
                    }
                    // do not go through Default (that would count twice)
                    Ok(GenSet { tag: next_tag(), content: None, payload: vec![] })
                },
                move |d: &mut GenSet| {
                    note_activity(&h1, "worker");
                    stall(ws);
                    let c = d.content.unwrap_or(usize::MAX);
                    {
                        let mut h = h1.lock().unwrap();
                        h.work_events.push((d.tag, c));
                        h.tags.insert(d.tag);
                    }
                    let o = gen_out(c, &d.payload);
                    h1.lock().unwrap().works_finished += 1;
                    o
                },
                // (`move`: the sender must die with the closure if the call returns before running it)
                move |rsets| {
                    let h2 = h2;
                    if let Some(tx) = sig_fn {
                        let _ = tx.send(());
                    }
                    consume_sets(scn, &h2, rsets, |d: &mut GenSet, o| Arrival::Set { tag: d.tag, content: d.content, out: if o == gen_out(d.content.unwrap_or(usize::MAX), &d.payload) { o } else { u64::MAX }, recs: vec![] });
                },
            );
            format!("{:?}", r)
        }
        Api::Fasta | Api::FastaInit => {
            use fasta::Record;
            let src = ChunkSource::new(data, &scn.script, scn.io_fault_at, Some(hist.clone())).with_fault_kind(scn.io_fault_kind);
            let h1 = hist.clone();
            let h2 = hist.clone();
            let ws = scn.worker_stall;
            let cs = scn.consumer_stall;
            let limit = match scn.consumer {
                Consumer::StopAfter(k) => k.max(1),
                _ => usize::MAX,
            };
            let mut got = 0usize;
            let work = move |rec: fasta::RefRecord, out: &mut BigOut, tag: &mut u32| {
                note_activity(&h1, "worker");
                stall(ws);
                out.v = rec_hash(rec.head(), &rec.owned_seq());
                let mut h = h1.lock().unwrap();
                h.work_events.push((*tag, rec_index(rec.head())));
                h.tags.insert(*tag);
            };
            let func = |rec: fasta::RefRecord, out: &mut BigOut, tag: &mut u32| -> Option<usize> {
                stall(cs);
                let want = rec_hash(rec.head(), &rec.owned_seq());
                h2.lock().unwrap().arrivals.push(Arrival::Rec { idx: rec_index(rec.head()), out: if out.v == want { out.v } else { 0 }, tag: *tag });
                got += 1;
                if got >= limit {
                    h2.lock().unwrap().consumer_left_early = true;
                    Some(got)
                } else {
                    None
                }
            };
            if scn.api == Api::Fasta {
                let cap = scn.cap.max(3);
                let r = parallel::parallel_fasta(fasta::Reader::with_capacity(src, cap), nt, q, move |rec, out: &mut BigOut| work(rec, out, &mut 0), {
                    let mut func = func;
                    move |rec, out: &mut BigOut| func(rec, out, &mut 0)
                });
                format!("{:?}", r)
            } else {
                let h0 = hist.clone();
                let h3 = hist.clone();
                let h4 = hist.clone();
                let cap = scn.cap.max(3);
                let fail_reader = scn.fail_reader_init;
                let fail_ds = scn.fail_dataset_init_at;
                let fail_rec = scn.fail_record_init_at;
                let src = Mutex::new(Some(src));
                let r: Result<Option<usize>, InitErr> = parallel::parallel_fasta_init(
                    nt,
                    q,
                    move || {
                        note_activity(&h0, "reader_init");
                        h0.lock().unwrap().reader_inits += 1;
                        rt::yield_now();
                        if fail_reader {
                            Err(InitErr::Reader)
                        } else {
                            Ok(fasta::Reader::with_capacity(src.lock().unwrap().take().unwrap(), cap))
                        }
                    },
                    move || {
                        note_activity(&h3, "record_data_init");
                        rt::yield_now();
                        let k = {
                            let mut h = h3.lock().unwrap();
                            h.record_inits += 1;
                            h.record_inits as usize - 1
                        };
                        if Some(k) == fail_rec {
                            Err(InitErr::Record(k))
                        } else {
                            Ok(BigOut::raw())
                        }
                    },
                    move || {
                        note_activity(&h4, "rset_data_init");
                        rt::yield_now();
                        let k = {
                            let mut h = h4.lock().unwrap();
                            h.dataset_inits += 1;
                            h.dataset_inits as usize - 1
                        };
                        if Some(k) == fail_ds {
                            Err(InitErr::DataSet(k))
                        } else {
                            Ok(next_tag())
                        }
                    },
                    work,
                    func,
                );
                format!("{:?}", r)
            }
        }
        Api::Fastq | Api::FastqInit => {
            use fastq::Record;
            let src = ChunkSource::new(data, &scn.script, scn.io_fault_at, Some(hist.clone())).with_fault_kind(scn.io_fault_kind);
            let h1 = hist.clone();
            let h2 = hist.clone();
            let ws = scn.worker_stall;
            let cs = scn.consumer_stall;
            let limit = match scn.consumer {
                Consumer::StopAfter(k) => k.max(1),
                _ => usize::MAX,
            };
            let mut got = 0usize;
            let work = move |rec: fastq::RefRecord, out: &mut BigOut, tag: &mut u32| {
                note_activity(&h1, "worker");
                stall(ws);
                out.v = rec_hash(rec.head(), rec.seq());
                let mut h = h1.lock().unwrap();
                h.work_events.push((*tag, rec_index(rec.head())));
                h.tags.insert(*tag);
            };
            let func = |rec: fastq::RefRecord, out: &mut BigOut, tag: &mut u32| -> Option<usize> {
                stall(cs);
                let want = rec_hash(rec.head(), rec.seq());
                h2.lock().unwrap().arrivals.push(Arrival::Rec { idx: rec_index(rec.head()), out: if out.v == want { out.v } else { 0 }, tag: *tag });
                got += 1;
                if got >= limit {
                    h2.lock().unwrap().consumer_left_early = true;
                    Some(got)
                } else {
                    None
                }
            };
            if scn.api == Api::Fastq {
                let cap = scn.cap.max(3);
                let r = parallel::parallel_fastq(fastq::Reader::with_capacity(src, cap), nt, q, move |rec, out: &mut BigOut| work(rec, out, &mut 0), {
                    let mut func = func;
                    move |rec, out: &mut BigOut| func(rec, out, &mut 0)
                });
                format!("{:?}", r)
            } else {
                let h0 = hist.clone();
                let h3 = hist.clone();
                let h4 = hist.clone();
                let cap = scn.cap.max(3);
                let fail_reader = scn.fail_reader_init;
                let fail_ds = scn.fail_dataset_init_at;
                let fail_rec = scn.fail_record_init_at;
                let src = Mutex::new(Some(src));
                let r: Result<Option<usize>, InitErr> = parallel::parallel_fastq_init(
                    nt,
                    q,
                    move || {
                        note_activity(&h0, "reader_init");
                        h0.lock().unwrap().reader_inits += 1;
                        rt::yield_now();
                        if fail_reader {
                            Err(InitErr::Reader)
                        } else {
                            Ok(fastq::Reader::with_capacity(src.lock().unwrap().take().unwrap(), cap))
                        }
                    },
                    move || {
                        note_activity(&h3, "record_data_init");
                        rt::yield_now();
                        let k = {
                            let mut h = h3.lock().unwrap();
                            h.record_inits += 1;
                            h.record_inits as usize - 1
                        };
                        if Some(k) == fail_rec {
                            Err(InitErr::Record(k))
                        } else {
                            Ok(BigOut::raw())
                        }
                    },
                    move || {
                        note_activity(&h4, "rset_data_init");
                        rt::yield_now();
                        let k = {
                            let mut h = h4.lock().unwrap();
                            h.dataset_inits += 1;
                            h.dataset_inits as usize - 1
                        };
                        if Some(k) == fail_ds {
                            Err(InitErr::DataSet(k))
                        } else {
                            Ok(next_tag())
                        }
                    },
                    work,
                    func,
                );
                format!("{:?}", r)
            }
        }
        Api::ReusableFastq => {
            use fastq::Record;
            let mut src = ChunkSource::new(data, &scn.script, scn.io_fault_at, Some(hist.clone())).with_fault_kind(scn.io_fault_kind);
            if scn.io_fault_at.is_none() && max_record_extent(&scn.input) + 2 <= scn.cap.max(3) {
                src = src.with_bound(q, scn.cap.max(3));
            }
            let reader: ReusableReader<fastq::Reader<ChunkSource>, Vec<u64>> = ReusableReader::new(fastq::Reader::with_capacity(src, scn.cap.max(3)));
            let h1 = hist.clone();
            let h2 = hist.clone();
            let ws = scn.worker_stall;
            parallel::read_parallel(
                reader,
                nt,
                q,
                move |d: &mut (fastq::RecordSet, Vec<u64>)| {
                    note_activity(&h1, "worker");
                    stall(ws);
                    d.1.clear();
                    for rec in &d.0 {
                        d.1.push(rec_hash(rec.head(), rec.seq()));
                    }
                    h1.lock().unwrap().works_finished += 1;
                    d.0.len() as u64
                },
                |rsets| {
                    consume_sets(scn, &h2, rsets, |d: &mut (fastq::RecordSet, Vec<u64>), o| {
                        let mut recs = vec![];
                        let mut ok = d.0.len() as u64 == o && d.1.len() == d.0.len();
                        for (rec, hsh) in (&d.0).into_iter().zip(d.1.iter()) {
                            recs.push(rec_index(rec.head()));
                            ok &= *hsh == rec_hash(rec.head(), rec.seq());
                        }
                        Arrival::Set { tag: 0, content: None, out: if ok { 1 } else { u64::MAX }, recs }
                    });
                },
            );
            "()".into()
        }
        Api::Records => {
            use fastq::Record;
            let src = ChunkSource::new(data, &scn.script, scn.io_fault_at, Some(hist.clone())).with_fault_kind(scn.io_fault_kind);
            let reader = fastq::Reader::with_capacity(src, scn.cap.max(3));
            let h1 = hist.clone();
            let h2 = hist.clone();
            let ws = scn.worker_stall;
            let cs = scn.consumer_stall;
            let limit = match scn.consumer {
                Consumer::StopAfter(k) => k.max(1),
                _ => usize::MAX,
            };
            let mut got = 0usize;
            let r = parallel::parallel_records(
                reader,
                nt,
                q,
                move |rec: fastq::RefRecord, out: &mut BigOut| {
                    note_activity(&h1, "worker");
                    stall(ws);
                    out.v = rec_hash(rec.head(), rec.seq());
                },
                |rec: fastq::RefRecord, out: &BigOut| -> Option<usize> {
                    stall(cs);
                    let want = rec_hash(rec.head(), rec.seq());
                    h2.lock().unwrap().arrivals.push(Arrival::Rec { idx: rec_index(rec.head()), out: if out.v == want { out.v } else { 0 }, tag: 0 });
                    got += 1;
                    if got >= limit {
                        h2.lock().unwrap().consumer_left_early = true;
                        Some(got)
                    } else {
                        None
                    }
                },
            );
            format!("{:?}", r)
        }
        Api::ReusableFasta => {
            use fasta::Record;
            let mut src = ChunkSource::new(data, &scn.script, scn.io_fault_at, Some(hist.clone())).with_fault_kind(scn.io_fault_kind);
            if scn.io_fault_at.is_none() && max_record_extent(&scn.input) + 2 <= scn.cap.max(3) {
                src = src.with_bound(q, scn.cap.max(3));
            }
            let reader: ReusableReader<fasta::Reader<ChunkSource>, Vec<u64>> = ReusableReader::new(fasta::Reader::with_capacity(src, scn.cap.max(3)));
            let h1 = hist.clone();
            let h2 = hist.clone();
            let ws = scn.worker_stall;
            parallel::read_parallel(
                reader,
                nt,
                q,
                move |d: &mut (fasta::RecordSet, Vec<u64>)| {
                    note_activity(&h1, "worker");
                    stall(ws);
                    d.1.clear();
                    for rec in &d.0 {
                        d.1.push(rec_hash(rec.head(), &rec.owned_seq()));
                    }
                    h1.lock().unwrap().works_finished += 1;
                    d.0.len() as u64
                },
                |rsets| {
                    consume_sets(scn, &h2, rsets, |d: &mut (fasta::RecordSet, Vec<u64>), o| {
                        let mut recs = vec![];
                        let mut ok = d.0.len() as u64 == o && d.1.len() == d.0.len();
                        for (rec, hsh) in (&d.0).into_iter().zip(d.1.iter()) {
                            recs.push(rec_index(rec.head()));
                            ok &= *hsh == rec_hash(rec.head(), &rec.owned_seq());
                        }
                        Arrival::Set { tag: 0, content: None, out: if ok { 1 } else { u64::MAX }, recs }
                    });
                },
            );
            "()".into()
        }
    };
    result
}

fn finish(hist: &SharedHist, result: String) {
    {
        let mut h = hist.lock().unwrap();
        h.returned = true;
        h.result = Some(result);
        h.spawned = rt::spawned();
        h.scope_pending_max = rt::scope_pending_max();
    }
    // every thread the call created must finish on its own: give the others the processor until
    // nobody is left; if only this task stays runnable while threads are alive they are stuck
    let mut spins = 0;
    while rt::live() > 0 && spins < 3000 {
        rt::yield_now();
        spins += 1;
    }
    hist.lock().unwrap().live_after = rt::live();
    DEFAULT_HIST.with(|h| *h.borrow_mut() = None);
}

// One long-lived shuttle `Runner` per worker thread (on a companion thread), so that shuttle's
// continuation pool is reused across executions: creating a Runner per execution maps and
// unmaps every coroutine stack, which serialises all worker threads on the process' mmap lock.

struct Job {
    scn: Arc<ParScn>,
    hist: SharedHist,
    sched: SimSched,
}

enum Reply {
    Done,
    Failed(String),
}

struct Companion {
    tx: std::sync::mpsc::Sender<Job>,
    rx: std::sync::mpsc::Receiver<Reply>,
}

thread_local! {
    static COMPANION: std::cell::RefCell<Option<Companion>> = const { std::cell::RefCell::new(None) };
    static CURRENT: std::cell::RefCell<Option<(Arc<ParScn>, SharedHist)>> = const { std::cell::RefCell::new(None) };
}

struct MultiSched {
    jobs: Arc<Mutex<std::sync::mpsc::Receiver<Job>>>,
    replies: std::sync::mpsc::Sender<Reply>,
    inner: Option<SimSched>,
    running: bool,
}

impl shuttle::scheduler::Scheduler for MultiSched {
    fn new_execution(&mut self) -> Option<shuttle::scheduler::Schedule> {
        if self.running {
            self.running = false;
            let _ = self.replies.send(Reply::Done);
        }
        let job = match self.jobs.lock().unwrap().recv() {
            Ok(j) => j,
            Err(_) => return None,
        };
        let mut sched = job.sched;
        let s = shuttle::scheduler::Scheduler::new_execution(&mut sched);
        self.inner = Some(sched);
        CURRENT.with(|c| *c.borrow_mut() = Some((job.scn, job.hist)));
        self.running = true;
        s
    }
    fn next_task(
        &mut self,
        runnable: &[&shuttle::scheduler::Task],
        current: Option<shuttle::scheduler::TaskId>,
        is_yielding: bool,
    ) -> Option<shuttle::scheduler::TaskId> {
        self.inner.as_mut().unwrap().next_task(runnable, current, is_yielding)
    }
    fn next_u64(&mut self) -> u64 {
        self.inner.as_mut().map(|s| s.next_u64()).unwrap_or(0)
    }
}

fn companion_main(jobs: std::sync::mpsc::Receiver<Job>, replies: std::sync::mpsc::Sender<Reply>) {
    let jobs = Arc::new(Mutex::new(jobs));
    loop {
        let j2 = jobs.clone();
        let r2 = replies.clone();
        let res = vcore::catch(move || {
            let mut cfg = shuttle::Config::new();
            cfg.failure_persistence = shuttle::FailurePersistence::None;
            cfg.max_steps = shuttle::MaxSteps::FailAfter(200_000);
            cfg.silence_warnings = true;
            cfg.stack_size = 0x20000;
            let ms = MultiSched { jobs: j2, replies: r2, inner: None, running: false };
            let runner = shuttle::Runner::new(ms, cfg);
            runner.run(|| {
                let (scn, hist) = CURRENT.with(|c| c.borrow().clone()).expect("current scenario");
                body(&scn, &hist);
            });
        });
        match res {
            Ok(()) => return, // job channel closed
            Err(msg) => {
                if replies.send(Reply::Failed(msg)).is_err() {
                    return;
                }
            }
        }
    }
}

pub fn execute(scn: &ParScn) -> Outcome {
    let hist: SharedHist = Arc::new(Mutex::new(Hist::default()));
    let kind = match &scn.sched {
        SchedSpec::Random => Kind::Random,
        SchedSpec::Pct(d, l) => Kind::Pct((*d).max(1), (*l).max(1)),
        SchedSpec::Sticky(p) => Kind::Sticky((*p).min(99)),
    };
    let sched = SimSched::new(kind, scn.sched_seed, scn.schedule.clone());
    let recorded = sched.recorded.clone();
    let diverged = sched.diverged.clone();
    let job = Job { scn: Arc::new(scn.clone()), hist: hist.clone(), sched };
    let reply = COMPANION.with(|c| {
        let mut c = c.borrow_mut();
        if c.is_none() {
            let (jtx, jrx) = std::sync::mpsc::channel::<Job>();
            let (rtx, rrx) = std::sync::mpsc::channel::<Reply>();
            std::thread::Builder::new()
                .name("shuttle-companion".into())
                .stack_size(8 << 20)
                .spawn(move || companion_main(jrx, rtx))
                .expect("spawn companion");
            *c = Some(Companion { tx: jtx, rx: rrx });
        }
        let comp = c.as_ref().unwrap();
        comp.tx.send(job).expect("companion alive");
        comp.rx.recv().expect("companion reply")
    });
    let failure = match reply {
        Reply::Done => None,
        Reply::Failed(m) => Some(m),
    };
    let h = hist.lock().unwrap().clone();
    let schedule = recorded.lock().unwrap().clone();
    let d = *diverged.lock().unwrap();
    Outcome { hist: h, failure, schedule, diverged: d }
}

// ---------------------------------------------------------------------------
// generation
// ---------------------------------------------------------------------------

pub fn gen_input(rng: &Rng, fasta: bool, n: usize, invalid_at: Option<usize>) -> String {
    let mut s = String::new();
    for i in 0..n {
        let len = rng.small(14);
        let seq: String = (0..len).map(|_| *rng.pick(b"ACGT") as char).collect();
        if Some(i) == invalid_at {
            if fasta {
                // FASTA has no invalid record in mid-stream; only an invalid start
                if i == 0 {
                    s.push_str("xr0\nAC\n");
                    continue;
                }
            } else {
                match rng.below(3) {
                    0 => s.push_str(&format!("xr{}\n{}\n+\n{}\n", i, seq, "I".repeat(len))),
                    1 => s.push_str(&format!("@r{}\n{}\n-\n{}\n", i, seq, "I".repeat(len))),
                    _ => s.push_str(&format!("@r{}\n{}\n+\n{}\n", i, seq, "I".repeat(len + 1))),
                }
                continue;
            }
        }
        if fasta {
            s.push_str(&format!(">r{}\n", i));
            if len > 0 {
                let cut = rng.range(0, len);
                if cut > 0 && cut < len && rng.chance(1, 2) {
                    s.push_str(&seq[..cut]);
                    s.push('\n');
                    s.push_str(&seq[cut..]);
                    s.push('\n');
                } else {
                    s.push_str(&seq);
                    s.push('\n');
                }
            }
        } else {
            s.push_str(&format!("@r{}\n{}\n+\n{}\n", i, seq, "I".repeat(len)));
        }
    }
    s
}

pub fn gen_scn(id: &str, rng: &Rng, thorough: bool) -> ParScn {
    let api = match id {
        "C16" => *rng.pick(&[0u8, 1, 1, 5, 6, 6, 7, 4, 8]),
        "C15" => *rng.pick(&[0u8, 1, 1, 2, 3, 4, 5, 6, 7, 1, 4, 5, 8]),
        _ => rng.below(9) as u8,
    };
    let api = [Api::Generic, Api::GenericInit, Api::Fasta, Api::Fastq, Api::FastaInit, Api::FastqInit, Api::ReusableFastq, Api::ReusableFasta, Api::Records][api as usize].clone();
    let generic = matches!(api, Api::Generic | Api::GenericInit);
    let init_api = matches!(api, Api::GenericInit | Api::FastaInit | Api::FastqInit);
    let set_level = matches!(api, Api::Generic | Api::GenericInit | Api::ReusableFastq | Api::ReusableFasta);
    let fasta = matches!(api, Api::Fasta | Api::FastaInit | Api::ReusableFasta);
    // mostly 1..4 worker threads, now and then many more than the queue is long
    let n_threads = if rng.chance(1, 25) { rng.range(5, 12) as u32 } else { rng.range(1, 4) as u32 };
    let queue_len = rng.range(1, 4);
    let max_sets = if id == "C16" { if thorough { 60 } else { 40 } } else { 10 };
    let n_sets = rng.small(max_sets);
    let mut scn = ParScn {
        api,
        n_threads,
        queue_len,
        n_sets,
        err_at: None,
        input: String::new(),
        cap: 0,
        script: vec![],
        io_fault_at: None,
        io_fault_kind: 0,
        consumer: Consumer::Drain,
        fail_reader_init: false,
        fail_dataset_init_at: None,
        fail_record_init_at: None,
        worker_stall: if rng.chance(1, 3) { rng.range(1, 4) as u32 } else { 0 },
        consumer_stall: if rng.chance(1, 4) { rng.range(1, 6) as u32 } else { 0 },
        sched: match rng.below(3) {
            0 => SchedSpec::Random,
            1 => SchedSpec::Pct(rng.range(1, 4), rng.range(50, 600)),
            _ => SchedSpec::Sticky(rng.range(50, 97) as u32),
        },
        sched_seed: rng.next_u64(),
        schedule: None,
        reader_waits_for: 0,
        pull_past_end: 0,
        twin: None,
    };
    let mut n_recs = 0;
    if !generic {
        n_recs = rng.small(if id == "C16" { 60 } else { 14 });
        let invalid = if matches!(id, "C15" | "C08") && rng.chance(1, 2) && n_recs > 0 {
            Some(if fasta { 0 } else { rng.below(n_recs as u64) as usize })
        } else {
            None
        };
        scn.input = gen_input(rng, fasta, n_recs, invalid);
        if !fasta && invalid.is_none() && matches!(id, "C15" | "C08") && rng.chance(1, 8) {
            // a tail of CR / LF characters in any order after the last record
            for _ in 0..rng.range(1, 5) {
                scn.input.push(*rng.pick(&['\r', '\n', '\r']));
            }
        }
        scn.cap = if rng.chance(1, 4) || (id == "C16" && rng.chance(2, 3)) { rng.range(40, 200) } else { rng.range(3, 40) };
        scn.script = match rng.below(4) {
            0 => vec![],
            1 => vec![rng.range(1, 9) as u32],
            _ => (0..rng.range(1, 4)).map(|_| rng.range(0, 30) as u32).chain(std::iter::once(rng.range(1, 20) as u32)).collect(),
        };
        if matches!(id, "C15" | "C08") && rng.chance(1, 6) {
            scn.io_fault_at = Some(rng.small(2 * scn.input.len() / scn.cap.max(1) + 3));
            scn.io_fault_kind = rng.below(8) as u8;
        }
    }
    // consumer behaviour
    scn.consumer = match id {
        "C07" | "C16" => Consumer::Drain,
        _ => match rng.below(6) {
            0 | 1 | 2 => Consumer::Drain,
            5 if set_level => Consumer::Never,
            _ => Consumer::StopAfter(if set_level { rng.small(n_sets + 1) } else { 1 + rng.small(n_recs) }),
        },
    };
    if matches!(id, "C07" | "C08" | "C16") && generic && rng.chance(1, 6000) {
        // a queue of thousands of slots (channel capacity clamps) with an input of a thousand sets
        scn.queue_len = rng.range(2050, 4500);
        scn.n_sets = rng.range(1024, scn.queue_len - 1026);
        scn.n_threads = rng.range(1, 2) as u32;
        scn.worker_stall = 0;
        scn.consumer_stall = 0;
        scn.err_at = None;
        scn.consumer = if rng.chance(2, 3) { Consumer::Drain } else { Consumer::Never };
    } else if matches!(id, "C08" | "C16") && generic && rng.chance(1, 300) {
        // a long queue (channel capacities, preallocation limits) with an input of comparable length
        scn.queue_len = rng.range(100, 300);
        scn.n_sets = rng.range(64, 260);
        scn.n_threads = rng.range(1, 3) as u32;
        scn.worker_stall = 0;
        scn.consumer_stall = 0;
        scn.consumer = if rng.chance(2, 3) { Consumer::Drain } else { Consumer::StopAfter(rng.small(scn.n_sets)) };
    }
    // (`reader_waits_for` is not generated any more: user closures that wait for each other are
    // outside what C08 quantifies over, and a legal reordering of the closure calls - e.g. waiting
    // for the outcome of reader_init before data sets are created - would raise an alarm. The
    // field stays for hand-written scenarios; see DESIGN 17, "after round 5".)
    if matches!(id, "C08" | "C15" | "C07") && set_level && scn.consumer == Consumer::Drain && rng.chance(1, 4) {
        scn.pull_past_end = rng.range(1, 3) as u8;
    }
    if id == "C16" && matches!(scn.api, Api::FastaInit | Api::FastqInit) && rng.chance(1, 12) {
        // batches that alternate between hundreds of tiny records and one big record: recycled
        // per-record outputs are alternately far too many and far too few
        let fasta_api = scn.api == Api::FastaInit;
        let mut inp = String::new();
        let mut i = 0;
        for _ in 0..rng.range(3, 6) {
            for _ in 0..rng.range(300, 420) {
                if fasta_api {
                    inp.push_str(&format!(">r{}\nA\n", i));
                } else {
                    inp.push_str(&format!("@r{}\nA\n+\nI\n", i));
                }
                i += 1;
            }
            let big = "C".repeat(rng.range(3300, 3900));
            if fasta_api {
                inp.push_str(&format!(">r{}\n{}\n", i, big));
            } else {
                inp.push_str(&format!("@r{}\n{}\n+\n{}\n", i, &big[..1800], "I".repeat(1800)));
            }
            i += 1;
        }
        scn.input = inp;
        scn.cap = 4096;
        scn.script = vec![];
        scn.io_fault_at = None;
        scn.queue_len = rng.range(1, 2);
        scn.n_threads = rng.range(1, 2) as u32;
        scn.worker_stall = 0;
        scn.consumer_stall = 0;
    }
    if id == "C07" && rng.chance(1, 60) {
        // two calls of the same per-record function at the same time, one draining, one stopping
        // early; batches of more than a thousand records (periodic checks inside a worker loop)
        let api = [Api::Fasta, Api::Fastq, Api::FastaInit, Api::FastqInit][rng.below(4) as usize].clone();
        let fa = matches!(api, Api::Fasta | Api::FastaInit);
        let mk = |rng: &Rng, consumer: Consumer| {
            let mut t = scn.clone();
            t.api = api.clone();
            t.input = gen_input(rng, fa, rng.range(1500, 3200), None);
            t.cap = *rng.pick(&[16384usize, 32768, 40000]);
            t.script = if rng.chance(1, 2) { vec![] } else { vec![rng.range(1000, 9000) as u32] };
            t.queue_len = rng.range(1, 2);
            t.n_threads = rng.range(1, 3) as u32;
            t.worker_stall = if rng.chance(1, 2) { 1 } else { 0 };
            t.consumer_stall = 0;
            t.err_at = None;
            t.io_fault_at = None;
            t.consumer = consumer;
            t.pull_past_end = 0;
            t.twin = None;
            t
        };
        let early = Consumer::StopAfter(rng.range(1, 1200));
        let (a, b) = if rng.chance(1, 2) { (Consumer::Drain, early) } else { (early, Consumer::Drain) };
        let mut main = mk(rng, a);
        let second = mk(rng, b);
        main.twin = Some(Box::new(second));
        return main;
    }
    // C07 also holds for the sets a failing reader produced before its error
    if id == "C07" && generic && rng.chance(1, 3) {
        scn.err_at = Some(rng.small(n_sets));
    }
    // faults
    if matches!(id, "C08" | "C15") {
        if generic && rng.chance(1, 2) {
            scn.err_at = Some(rng.small(n_sets));
        }
        if init_api {
            match rng.below(6) {
                0 => scn.fail_reader_init = true,
                1 => scn.fail_dataset_init_at = Some(rng.small(queue_len + 1)),
                2 if !generic => scn.fail_record_init_at = Some(rng.small(n_recs + 1)),
                _ => {}
            }
        }
    }
    scn
}

pub fn shrink(scn: &ParScn) -> Vec<ParScn> {
    let mut out: Vec<ParScn> = vec![];
    // materialise the schedule first, so that it can be edited and the replay file is seed-free
    if scn.schedule.is_none() {
        let o = execute(scn);
        let mut c = scn.clone();
        c.schedule = Some(o.schedule);
        out.push(c);
        return out;
    }
    let mut push = |c: ParScn| {
        if &c != scn {
            out.push(c);
        }
    };
    if scn.n_threads > 1 {
        let mut c = scn.clone();
        c.n_threads -= 1;
        push(c);
    }
    if scn.queue_len > 1 {
        let mut c = scn.clone();
        c.queue_len -= 1;
        push(c);
    }
    if scn.n_sets > 0 {
        let mut c = scn.clone();
        c.n_sets /= 2;
        push(c);
        let mut c = scn.clone();
        c.n_sets -= 1;
        push(c);
    }
    if let Some(e) = scn.err_at {
        if e > 0 {
            let mut c = scn.clone();
            c.err_at = Some(e - 1);
            push(c);
        }
    }
    if scn.worker_stall > 0 {
        let mut c = scn.clone();
        c.worker_stall = 0;
        push(c);
    }
    if scn.consumer_stall > 0 {
        let mut c = scn.clone();
        c.consumer_stall = 0;
        push(c);
    }
    if !scn.script.is_empty() {
        let mut c = scn.clone();
        c.script = vec![];
        push(c);
    }
    if let Consumer::StopAfter(k) = scn.consumer {
        if k > 0 {
            let mut c = scn.clone();
            c.consumer = Consumer::StopAfter(k - 1);
            push(c);
        }
    }
    // drop records from the end of the input (whole records: split at record starts)
    if !scn.input.is_empty() {
        let starts: Vec<usize> = scn.input.match_indices('\n').map(|x| x.0 + 1).filter(|i| scn.input[*i..].starts_with('>') || scn.input[*i..].starts_with('@')).collect();
        if let Some(last) = starts.last() {
            let mut c = scn.clone();
            c.input.truncate(*last);
            push(c);
        }
        if starts.len() > 2 {
            let mut c = scn.clone();
            c.input.truncate(starts[starts.len() / 2]);
            push(c);
        }
    }
    if scn.cap > 3 && scn.cap != 64 {
        let mut c = scn.clone();
        c.cap = 64;
        push(c);
    }
    // schedule: greedily replace a context switch by "keep running the current task"
    if let Some(s) = &scn.schedule {
        if s.len() > 1 {
            let mut c = scn.clone();
            c.schedule = Some(s[..s.len() / 2].to_vec());
            push(c);
        }
        let mut switches = 0;
        for i in 1..s.len() {
            if s[i] != s[i - 1] {
                switches += 1;
                if switches > 60 {
                    break;
                }
                let mut t = s.clone();
                t[i] = t[i - 1];
                let mut c = scn.clone();
                c.schedule = Some(t);
                push(c);
            }
        }
    }
    out
}
