//! STUB of `crossbeam_utils::thread::{scope, Scope::spawn, ScopedJoinHandle::join}` on shuttle
//! threads — only what /repo/src/parallel.rs uses, mirroring the documented semantics:
//! spawned threads may borrow from the environment, `scope` returns only after every spawned
//! thread has finished, a panic of an unjoined child makes `scope` return `Err`.

pub mod thread {
    use seq_io_verif_rt::sync::{Arc, Mutex};
    use seq_io_verif_rt::thread as rt;
    use std::cell::RefCell;
    use std::marker::PhantomData;

    type Slot<T> = Arc<Mutex<Option<T>>>;

    pub struct Scope<'env> {
        handles: RefCell<Vec<Arc<Mutex<Option<rt::JoinHandle<()>>>>>>,
        _marker: PhantomData<&'env mut &'env ()>,
    }

    pub struct ScopedJoinHandle<'scope, T> {
        handle: Arc<Mutex<Option<rt::JoinHandle<()>>>>,
        result: Slot<T>,
        _marker: PhantomData<&'scope ()>,
    }

    // the handle is only moved within the spawning thread in parallel.rs, but the real type is Send
    unsafe impl<T: Send> Send for ScopedJoinHandle<'_, T> {}

    impl<T> ScopedJoinHandle<'_, T> {
        pub fn join(self) -> std::thread::Result<T> {
            let h = self.handle.lock().unwrap().take();
            if let Some(h) = h {
                h.join()?;
            }
            match self.result.lock().unwrap().take() {
                Some(v) => Ok(v),
                None => Err(Box::new("scoped thread produced no result")),
            }
        }
    }

    impl<'env> Scope<'env> {
        fn new() -> Scope<'env> {
            Scope { handles: RefCell::new(vec![]), _marker: PhantomData }
        }

        pub fn spawn<'scope, F, T>(&'scope self, f: F) -> ScopedJoinHandle<'scope, T>
        where
            F: FnOnce(&Scope<'env>) -> T + Send + 'env,
            T: Send + 'env,
        {
            let result: Slot<T> = Arc::new(Mutex::new(None));
            let r2 = result.clone();
            let body: Box<dyn FnOnce() + Send + 'env> = Box::new(move || {
                let inner: Scope<'env> = Scope::new();
                let v = f(&inner);
                inner.join_all();
                *r2.lock().unwrap() = Some(v);
            });
            // SAFETY: lifetime erasure as in crossbeam; `scope()` joins every thread before it
            // returns, so nothing borrowed for 'env is used after 'env ends.
            let body: Box<dyn FnOnce() + Send + 'static> = unsafe { std::mem::transmute(body) };
            let h = rt::spawn(body);
            let handle = Arc::new(Mutex::new(Some(h)));
            self.handles.borrow_mut().push(handle.clone());
            let pending = self.handles.borrow().iter().filter(|h| h.lock().unwrap().is_some()).count();
            rt::note_scope_pending(pending);
            ScopedJoinHandle { handle, result, _marker: PhantomData }
        }

        fn join_all(&self) -> bool {
            let mut panicked = false;
            let hs: Vec<_> = self.handles.borrow_mut().drain(..).collect();
            for h in hs {
                let jh = h.lock().unwrap().take();
                if let Some(jh) = jh {
                    if jh.join().is_err() {
                        panicked = true;
                    }
                }
            }
            panicked
        }
    }

    pub fn scope<'env, F, R>(f: F) -> std::thread::Result<R>
    where
        F: FnOnce(&Scope<'env>) -> R,
    {
        let scope = Scope::new();
        let r = f(&scope);
        if scope.join_all() {
            return Err(Box::new("a scoped thread panicked"));
        }
        Ok(r)
    }
}
