//! Runtime the hooked build of seq_io (and the retargeted scoped_threadpool / the
//! crossbeam scope stub) link against: shuttle's controlled replacements of the std
//! primitives, plus a per-execution count of live threads.

pub use shuttle::sync::mpsc;

pub mod sync {
    pub use shuttle::sync::mpsc;
    pub use shuttle::sync::{Arc, Mutex};
}

pub mod thread {
    pub use shuttle::thread::JoinHandle;
    use std::cell::Cell;

    // All tasks of one shuttle execution run as coroutines on the OS thread of the runner, so a
    // thread-local is per execution.
    thread_local! {
        static LIVE: Cell<usize> = const { Cell::new(0) };
        static SPAWNED: Cell<usize> = const { Cell::new(0) };
        static SCOPE_PENDING_MAX: Cell<usize> = const { Cell::new(0) };
    }

    struct Guard;
    impl Drop for Guard {
        fn drop(&mut self) {
            LIVE.with(|l| l.set(l.get().saturating_sub(1)));
        }
    }

    pub fn reset_counters() {
        LIVE.with(|l| l.set(0));
        SPAWNED.with(|l| l.set(0));
        SCOPE_PENDING_MAX.with(|l| l.set(0));
    }
    /// the crossbeam scope stub reports how many scoped threads it holds that nobody has joined
    /// yet (crossbeam keeps their handles, results and stacks until the scope ends)
    pub fn note_scope_pending(n: usize) {
        SCOPE_PENDING_MAX.with(|l| l.set(l.get().max(n)));
    }
    pub fn scope_pending_max() -> usize {
        SCOPE_PENDING_MAX.with(|l| l.get())
    }
    pub fn live() -> usize {
        LIVE.with(|l| l.get())
    }
    pub fn spawned() -> usize {
        SPAWNED.with(|l| l.get())
    }

    pub fn spawn<F, T>(f: F) -> JoinHandle<T>
    where
        F: FnOnce() -> T + Send + 'static,
        T: Send + 'static,
    {
        LIVE.with(|l| l.set(l.get() + 1));
        SPAWNED.with(|l| l.set(l.get() + 1));
        shuttle::thread::spawn(move || {
            let _g = Guard;
            f()
        })
    }

    pub use shuttle::thread::{sleep, yield_now};
}
