#!/bin/sh
# Runs the checks named in each /verif/seeded/<id>/meta.json ("checks") against the seeded change
# in the scratch harness (tools/mutharness.sh) and reports caught / missed. Usage:
#   tools/run_seeded.sh [--update] [seeded-id ...]     (default: all; --update rewrites caught_by / missed_by in meta.json)
HERE="$(cd "$(dirname "$0")/.." && pwd)"
UPDATE=0
if [ "$1" = "--update" ]; then UPDATE=1; shift; fi
[ -d /tmp/mh/repo ] || "$HERE/tools/mutharness.sh" init
"$HERE/tools/mutharness.sh" sync >/dev/null 2>&1
if [ $# -eq 0 ]; then set -- $(ls "$HERE/seeded"); fi
for id in "$@"; do
  d="$HERE/seeded/$id"
  [ -f "$d/patch.diff" ] || continue
  checks=$(python3 -c "import json;print(' '.join(json.load(open('$d/meta.json'))['checks']))")
  echo "== $id (checks: $checks)"
  RES=$("$HERE/tools/mutharness.sh" run "$d/patch.diff" $checks | cut -c1-330)
  echo "$RES"
  if [ $UPDATE = 1 ]; then
    python3 - "$d/meta.json" "$RES" <<'PY'
import json,sys,re
p,res=sys.argv[1],sys.argv[2]
m=json.load(open(p))
caught=[(k,r or 'process_killed') for k,r in re.findall(r'\[(C\d+)\] CAUGHT: VIOLATION property=\S+ replay=\S+(?: rule=(\S+))?',res)]
missed=re.findall(r'\[(C\d+)\] missed',res)
old=[x['check'] for x in m.get('caught_by',[])]
m['caught_by']=[{"check":k,"rule":r} for k,r in caught]
m['missed_by']=missed
newly=[k for k,_ in caught if k not in old]
if newly and 'first_run_caught_by' not in m:
    m['first_run_caught_by']=old
json.dump(m,open(p,'w'),indent=1)
PY
  fi
done
