#!/bin/sh
# Runs the checks named in each /verif/seeded/<id>/meta.json ("checks") against the seeded change
# in the scratch harness (tools/mutharness.sh) and reports caught / missed. Usage:
#   tools/run_seeded.sh [seeded-id ...]     (default: all)
HERE="$(cd "$(dirname "$0")/.." && pwd)"
[ -d /tmp/mh/repo ] || "$HERE/tools/mutharness.sh" init
"$HERE/tools/mutharness.sh" sync >/dev/null 2>&1
if [ $# -eq 0 ]; then set -- $(ls "$HERE/seeded"); fi
for id in "$@"; do
  d="$HERE/seeded/$id"
  [ -f "$d/patch.diff" ] || continue
  checks=$(python3 -c "import json;print(' '.join(json.load(open('$d/meta.json'))['checks']))")
  echo "== $id (checks: $checks)"
  "$HERE/tools/mutharness.sh" run "$d/patch.diff" $checks | cut -c1-330
done
