#!/bin/sh
# Determinism self-test: every engine executes N run seeds per check twice, in different
# processes, at worker counts 1 and 16 (and a third time at 5), and the digests of the full
# event logs (every seam call with arguments and result, every outcome, every scheduler
# choice) must be identical. Exit 0 = deterministic, 2 = mismatch (harness error).
HERE="$(cd "$(dirname "$0")/.." && pwd)"
N="${1:-2000}"
export CARGO_NET_OFFLINE=true
[ -f "$HERE/sim-par/shims/scoped_threadpool/src/lib.rs" ] || "$HERE/tools/gen_shims.sh" >/dev/null || exit 2
for e in sim-io sim-par; do (cd "$HERE/$e" && cargo build --release --offline -q 2>/dev/null) || { echo "HARNESS-ERROR: build of $e failed"; exit 2; }; done
FAIL=0
TOTAL=0
for id in C01 C02 C03 C04 C05 C06 C09 C10 C11 C12 C13 C14 C17 C18 C19 C20 C07 C08 C15 C16; do
  case "$id" in C07|C08|C15|C16) BIN="$HERE/sim-par/target/release/sim-par";; *) BIN="$HERE/sim-io/target/release/sim-io";; esac
  for seed in 1 7; do
    A=$("$BIN" "$id" --digest --runs "$N" --workers 1 --seed $seed | grep DIGEST)
    B=$("$BIN" "$id" --digest --runs "$N" --workers 16 --seed $seed | grep DIGEST)
    C=$("$BIN" "$id" --digest --runs "$N" --workers 5 --seed $seed | grep DIGEST)
    TOTAL=$((TOTAL + N))
    if [ "$A" != "$B" ] || [ "$A" != "$C" ] || [ -z "$A" ]; then echo "MISMATCH $id seed=$seed: [$A] [$B] [$C]"; FAIL=1; else echo "ok $id seed=$seed $A"; fi
  done
done
# second stage: a longer batch per check, so that the rare profiles (readers on a FIFO with its
# helper thread, multi-MiB records, interrupt storms, two parallel calls at once, long queues ...)
# are in the sample as well; two processes, 16 and 3 workers
M="${2:-60000}"
for id in C01 C02 C03 C04 C05 C06 C09 C10 C11 C12 C13 C14 C17 C18 C19 C20 C07 C08 C15 C16; do
  case "$id" in C07|C08|C15|C16) BIN="$HERE/sim-par/target/release/sim-par"; K=$((M / 3));; C14|C18) BIN="$HERE/sim-io/target/release/sim-io"; K=$((M / 6));; *) BIN="$HERE/sim-io/target/release/sim-io"; K=$M;; esac
  A=$("$BIN" "$id" --digest --runs "$K" --workers 16 --seed 3 | grep DIGEST)
  B=$("$BIN" "$id" --digest --runs "$K" --workers 3 --seed 3 | grep DIGEST)
  TOTAL=$((TOTAL + K))
  if [ "$A" != "$B" ] || [ -z "$A" ]; then echo "MISMATCH $id seed=3: [$A] [$B]"; FAIL=1; else echo "ok $id seed=3 $A"; fi
done
if [ $FAIL = 0 ]; then echo "determinism self-test passed: $TOTAL run seeds, each executed 2-3 times in separate processes at different worker counts"; exit 0; else echo "HARNESS-ERROR: nondeterministic replay"; exit 2; fi
