#!/usr/bin/env python3
"""Regenerates the table of DESIGN.md section 15.1 (between the SEEDED-TABLE markers) from
seeded/*/meta.json, and prints the totals. Usage: tools/gen_seeded_table.py [--write]"""
import json, os, re, sys
here = os.path.dirname(os.path.dirname(os.path.abspath(__file__)))
rows = []
tot = {}
for d in sorted(os.listdir(os.path.join(here, 'seeded'))):
    mp = os.path.join(here, 'seeded', d, 'meta.json')
    if not os.path.exists(mp):
        continue
    m = json.load(open(mp))
    own = re.match(r'(C\d+)', d).group(1)
    rnd = 'r1' if re.match(r'C\d+_\d+$', d) else re.match(r'C\d+_(r\d+)_', d).group(1)
    caught = m.get('caught_by', [])
    cs = [c['check'] for c in caught]
    t = tot.setdefault(rnd, [0, 0, 0]); t[0] += 1; t[1] += own in cs; t[2] += bool(cs)
    needs = ' '.join(m.get('needs_to_manifest', '').split())
    needs = re.sub(r'^(needed for it to manifest|needed|needs)\W*', '', needs)
    if len(needs) > 230:
        needs = needs[:230] + '…'
    needs = needs.replace('|', '\\|')
    c = '; '.join('%s: %s' % (x['check'], x['rule'].split('.', 1)[-1]) for x in caught) or '**none**'
    if 'first_run_caught_by' in m:
        c += ' (first run: %s)' % (', '.join(m['first_run_caught_by']) or 'none')
    if own not in cs and cs:
        c = '*(not by ' + own + ')* ' + c
    rows.append('| %s | %s | %s | %s | %s |' % (d, own, needs, c, ', '.join(m.get('missed_by', [])) or '—'))
table = '\n'.join(['| Seeded change | Property | Needs, in order to manifest | Caught by (first rule) | Also run, silent |', '|---|---|---|---|---|'] + rows)
# per-round summary (first run = the engine as it was when the round was delivered; for rounds 1 and 2
# the numbers noted at the time, later rounds from meta.json)
first = {}
for d in sorted(os.listdir(os.path.join(here, 'seeded'))):
    mp = os.path.join(here, 'seeded', d, 'meta.json')
    if not os.path.exists(mp):
        continue
    m = json.load(open(mp))
    own = re.match(r'(C\d+)', d).group(1)
    rnd = 'r1' if re.match(r'C\d+_\d+$', d) else re.match(r'C\d+_(r\d+)_', d).group(1)
    fr = m.get('first_run_caught_by', [c['check'] for c in m.get('caught_by', [])])
    f = first.setdefault(rnd, [0, 0]); f[0] += own in fr; f[1] += bool(fr)
first['r1'] = [38, 38]
first['r2'] = [35, 44]
summary = ['| Round | delivered | own check, first run | some check, first run | own check, now | some check, now |', '|---|---|---|---|---|---|']
for k in sorted(tot, key=lambda x: int(x[1:])):
    summary.append('| %s | %d | %d | %d | %d | %d |' % (k[1:], tot[k][0], first[k][0], first[k][1], tot[k][1], tot[k][2]))
summary.append('| all | %d | %d | %d | %d | %d |' % (sum(v[0] for v in tot.values()), sum(v[0] for v in first.values()), sum(v[1] for v in first.values()), sum(v[1] for v in tot.values()), sum(v[2] for v in tot.values())))
summary = '\n'.join(summary)
for k in sorted(tot, key=lambda x: int(x[1:])):
    print(k, 'total %d own-check %d some-check %d' % tuple(tot[k]))
print('all', [sum(v[i] for v in tot.values()) for i in range(3)])
print(summary)
if '--write' in sys.argv:
    p = os.path.join(here, 'DESIGN.md')
    s = open(p).read()
    a, b = '<!-- SEEDED-TABLE-BEGIN -->', '<!-- SEEDED-TABLE-END -->'
    i, j = s.index(a), s.index(b)
    s = s[:i + len(a)] + '\n' + table + '\n' + s[j:]
    a, b = '<!-- SEEDED-SUMMARY-BEGIN -->', '<!-- SEEDED-SUMMARY-END -->'
    if a in s:
        i, j = s.index(a), s.index(b)
        s = s[:i + len(a)] + '\n' + summary + '\n' + s[j:]
    open(p, 'w').write(s)
