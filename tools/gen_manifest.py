#!/usr/bin/env python3
"""Regenerates /verif/MANIFEST.json from the table below (keeps it valid and in one place)."""
import json, os, subprocess, sys
HERE = os.path.dirname(os.path.dirname(os.path.abspath(__file__)))

SIM_IO_BASE = ("Trusted base: the reference model and its accepted-outcome sets (sim-io/src/model.rs, DESIGN 4), the "
               "simulated seams (SimSource/SimSink/SimPolicy obey the io::Read/Write and BufPolicy contracts), the seeded generator's reach. "
               "Real code: all of /repo/src reached, buffer-redux, memchr, built without the hook cfg from the current working tree.")
SIM_PAR_BASE = ("Trusted base: shuttle 0.9.3's models of thread, Mutex, Condvar and mpsc (incl. rendezvous and disconnect wake-ups), the "
                "~80-line crossbeam thread::scope stub, the scripted generic Reader; the real src/parallel.rs (guard on: only `use std::sync::mpsc` "
                "is switched), the real scoped_threadpool 0.1.9 with three import lines retargeted, and the real fasta/fastq readers run under the controlled scheduler.")

def chk(pid, engine, cat, text, note, technique, ref):
    return {
        "property_id": pid,
        "quick_cmd": f"./check {pid} --tier quick",
        "thorough_cmd": f"./check {pid} --tier thorough",
        "evidence_file": f"/verif/evidence/{pid}.json",
        "replay_cmd_template": f"./check {pid} --replay {{path}}",
        "engine": engine,
        "level_claimed": {"category": cat, "text": text, "design_ref": ref},
        "level_note": note,
        "technique": technique,
    }

DS = "deterministic simulation: seeded search over "
checks = [
 chk("C01","sim-io","exploration","Seeded search over (FASTA input x capacity x read-chunk/EINTR script x cut offsets); every run of the real reader is compared record by record with a line-splitting reference model. A clean batch is evidence that no sampled alignment of the input with the buffer end breaks the format rules; it is not a proof over all byte strings.",SIM_IO_BASE,DS+"input x capacity x source chunking/EINTR scripts, reference-model oracle","DESIGN.md 5 C01"),
 chk("C02","sim-io","exploration","Same harness with the four-line FASTQ model and one defect of each kind at every record index; accepted-outcome sets only where the property text is open.",SIM_IO_BASE,DS+"input x capacity x source chunking/EINTR scripts, reference-model oracle","DESIGN.md 5 C02"),
 chk("C03","sim-io","exploration","Differential: one (input, history) under 2-4 independently drawn (capacity, policy, chunk script) configurations, full observation logs compared pairwise, no model. Sampled, so evidence rather than proof.",SIM_IO_BASE+" No reference model is involved in this check.",DS+"pairs of configurations (capacity x policy x chunking), differential oracle","DESIGN.md 5 C03"),
 chk("C04","sim-io","exploration","Seeded histories of next / owned iterator / record set / exact-count set / seek over three set slots against a cursor model; exactly-once, batch contents, exact counts and unchanged earlier sets are checked per operation and over the history.",SIM_IO_BASE,DS+"operation histories x capacity x chunking, cursor reference model","DESIGN.md 5 C04"),
 chk("C05","sim-io","exploration","Histories rich in seeks to the model coordinates of every record (and of the invalid FASTQ group) from every reader state, with the capacity deciding between in-buffer shortcut and real seek (both branches counted by reach probes); positions and post-seek streams compared with the model.",SIM_IO_BASE,DS+"read/seek histories x capacity x chunking, model coordinates oracle","DESIGN.md 5 C05"),
 chk("C06","sim-io","exploration","Fault-injecting histories: refusing policies, I/O errors on reads and seeks at random call indices, arbitrary continuation after errors/end, iteration of sets whose fill failed. Oracle: no panic (catch_unwind), per-operation seam-step budget + wall-clock watchdog, every record handed out is a genuine model record in order.",SIM_IO_BASE+" Release build with overflow-checks on, so arithmetic overflow counts as a panic like in the repository's own test profile.",DS+"call histories x fault sequences (I/O errors, refused growth) x capacity x chunking; panic/step-budget/membership oracle","DESIGN.md 5 C06"),
 chk("C09","sim-io","exploration","Recording/refusing/slowly growing policies x record sizes around the capacity x histories; grow_to argument chain, adoption of the granted size (seen through the request size of fresh fills), necessity of every growth against the model's raw record extents, BufferLimit <=> refusal, plus direct evaluation of the built-in policy arithmetic.",SIM_IO_BASE+" The policy-arithmetic clause is a pure function; the simulator adds nothing to it.",DS+"policies x record sizes x histories with a recording BufPolicy seam","DESIGN.md 5 C09"),
 chk("C10","sim-io","exploration","Weak fit (mostly a pure function of head/seq/width/chunking): 12 writer entry points x widths x chunkings into a sink with short writes and EINTR; sink-independence, wrap shape, whole-vs-chunked equality and round trip through the real reader over a simulated source.",SIM_IO_BASE,DS+"writer entry points x chunkings x sink short-write/EINTR scripts, round trip through the real reader","DESIGN.md 5 C10"),
 chk("C11","sim-io","exploration","FASTQ writers into a faulty sink re-parsed through the real reader; write_unchanged of every record obtained at every position relative to the buffer (capacity x chunking) compared byte-exactly with the normalised input.",SIM_IO_BASE,DS+"inputs x capacity x chunking x sink scripts, byte-equality oracle","DESIGN.md 5 C11"),
 chk("C12","sim-io","exploration","Abstract well-formed file rendered {LF,CRLF}x{final terminator, none} (+ per-line mixtures for FASTA), each rendering read under its own (capacity, chunking); oracle is the relation between the runs.",SIM_IO_BASE+" Relation between runs only; no model.",DS+"renderings x capacity x chunking (alignment of CR/LF with the buffer end), relational oracle","DESIGN.md 5 C12"),
 chk("C13","sim-io","exploration","Weak fit (relations are pure functions of one record): invariant monitor on every record any simulated run hands out, in every buffer layout reached (after compaction, growth, inside reused sets).",SIM_IO_BASE,"invariant monitor inside deterministic-simulation runs (records reached under capacity x chunking x histories)","DESIGN.md 5 C13"),
 chk("C14","sim-io","fault_enumeration","For each sampled (input, capacity, chunking, history) the fault-free run counts the source calls N and then an error is injected at EVERY call index k < N (96 spread when N > 96); the failing operation must return Io(kind) unchanged, the prefix must equal the fault-free log; any Interrupted pattern must be invisible. Complete over k per scenario, sampled over scenarios.",SIM_IO_BASE,"deterministic simulation with fault enumeration: an I/O error at every source call index of each sampled run; EINTR patterns compared with the quiet run","DESIGN.md 5 C14"),
 chk("C17","sim-io","exploration","Defect at every record index with the capacity placed so it lies -3..+3 around a buffer end, all chunkings; error fields compared with the model and the message checked for its values.",SIM_IO_BASE,DS+"defect position x capacity x chunking, reference-model oracle on error fields and message","DESIGN.md 5 C17"),
 chk("C18","sim-io","exploration","Counting global allocator armed around a steady-state window of next()/read_record_set() calls on uniform records after a warm-up, under short reads and EINTR; 0 allocations and 0 grow_to calls required. Deterministic (same scenario, same count).",SIM_IO_BASE+" The harness seams are allocation-free inside the window.",DS+"record shapes x capacity x chunk scripts with a counting allocator seam","DESIGN.md 5 C18"),
 chk("C19","sim-io","exploration","Weak fit (pure function of a value): serde_json round trip of every owned record and every freshly filled (reused) record set reached by simulated histories.",SIM_IO_BASE+" serde_json is part of the trusted base.","invariant monitor inside deterministic-simulation runs (record sets reached by histories, incl. reused sets with stale offsets)","DESIGN.md 5 C19"),
 chk("C20","sim-io","exploration","Weak fit (sequential object, no fault or schedule): seeded front/back step histories on seq_lines() of every record handed out against a VecDeque model with len/size_hint checked before each step, plus adaptors; RecordSetIter and owned iterators checked for bracketing hints and fusedness.",SIM_IO_BASE,"model conformance over operation histories inside deterministic-simulation runs (VecDeque reference model)","DESIGN.md 5 C20"),
]
par = [
 chk("C07","sim-par","exploration","The real parallel.rs, the real thread pool and the real readers run on shuttle threads under our own seeded scheduler (uniform / PCT-style / sticky); conservation, pairing and order are checked over the recorded history of consumer observations for sampled schedules x thread counts x queue lengths x set sizes.",SIM_PAR_BASE,DS+"thread schedules (recorded, replayable) x threads x queue x inputs; history check (conservation, pairing, order)","DESIGN.md 5 C07"),
 chk("C08","sim-par","exploration","Same executions with consumers that drain, stop after k, or never ask, reader errors at every set index and failing init closures; shuttle reports deadlock (no runnable task) and step-bound overrun; a flag asserts nothing runs after the function returned. Bounded liveness under sampled schedules, not a proof of deadlock freedom.",SIM_PAR_BASE,DS+"schedules x consumer behaviours x fault points; deadlock / step-bound / post-return activity oracle","DESIGN.md 5 C08"),
 chk("C15","sim-par","exploration","Reader error at set k, invalid input at record i, each init closure failing at call j, under sampled schedules; the error must arrive exactly once, nothing read after it may arrive, and the per-record functions must return the same error sequential reading reports.",SIM_PAR_BASE,DS+"schedules x fault points (reader error index, init failure index, invalid record index)","DESIGN.md 5 C15"),
 chk("C16","sim-par","exploration","Long inputs, slow consumers and sticky schedules; data-set creations, identity tags and reader run-ahead are bounded by queue length (+1).",SIM_PAR_BASE,DS+"schedules x consumer speeds x input lengths; creation count / identity / run-ahead monitors","DESIGN.md 5 C16"),
]
have_par = os.path.exists(os.path.join(HERE, "sim-par", "src", "main.rs"))
hook_commits = []
try:
    out = subprocess.check_output(["git", "-C", "/repo", "log", "--format=%H %s"]).decode().splitlines()
    hook_commits = [l.split()[0] for l in out if " verif-hook:" in l]
except Exception:
    pass
m = {
 "version": 1,
 "setup_cmd": "./tools/setup.sh",
 "hooks": {
   "guard": "seq_io_verif (rustc --cfg, set only by /verif/sim-par/.cargo/config.toml)",
   "enable": "SIM-PAR builds seq_io through the shadow manifest /verif/sim-par/shadow/Cargo.toml ([lib] path=/repo/src/lib.rs, same dependencies, scoped_threadpool and crossbeam-utils resolved to shuttle-backed path crates) with RUSTFLAGS --cfg seq_io_verif, which switches `use std::sync::mpsc` in src/parallel.rs to shuttle's mpsc. SIM-IO links /repo unhooked.",
   "baseline_off_cmd": "cd /repo && cargo test --workspace --no-fail-fast --offline",
   "source_commits": hook_commits,
   "add_only": True,
 },
 "engines": [
   {"name": "sim-io", "path": "/verif/sim-io", "serves_properties": [c["property_id"] for c in checks], "kind_free_text": "single-threaded deterministic simulator over the io::Read+Seek / io::Write / BufPolicy / allocator seams with reference models, fault injection, minimiser and replay"},
 ],
 "checks": checks + (par if have_par else []),
 "notes": "All commands run in /verif. ./check rebuilds the engine against /repo's working tree first (exit 2 = harness/build error). VERIF_SEED and VERIF_TIER are honoured (any seed must be alarm-free on a tree where the property holds). Known findings: /verif/known_findings.json (all entries are fixed by 'fix:' commits in /repo; none is open). ./check selftest-determinism proves replay determinism on a large sample.",
 "not_applicable": [] if have_par else [
   {"property_id": p, "reason": "not claimed yet: the SIM-PAR schedule simulator (shuttle + own scheduler) that decides it is still under construction in this session"} for p in ["C07","C08","C15","C16"]
 ],
}
if have_par:
    m["engines"].append({"name": "sim-par", "path": "/verif/sim-par", "serves_properties": ["C07","C08","C15","C16"], "kind_free_text": "schedule simulator: real parallel.rs + scoped_threadpool + readers on shuttle threads under an own seeded recording/replaying scheduler"})
json.dump(m, open(os.path.join(HERE, "MANIFEST.json"), "w"), indent=1)
print("MANIFEST.json written:", len(m["checks"]), "checks")
