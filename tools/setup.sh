#!/bin/sh
# Build the verification engines offline from files on disk only.
set -e
HERE="$(cd "$(dirname "$0")/.." && pwd)"
export CARGO_NET_OFFLINE=true
cd "$HERE"
if [ -d sim-par ] && [ -f tools/gen_shims.sh ]; then ./tools/gen_shims.sh; fi
for e in sim-io sim-par; do
  if [ -f "$e/Cargo.toml" ]; then (cd "$e" && cargo build --release --offline -q 2>&1 | grep -E "^(error|warning: unused)" -A6 || true; test -x "target/release/$e"); fi
done
echo "setup ok"
