#!/bin/sh
# Sensitivity of the checks against our own mutants (mutants/M*.patch: each must be caught by every
# check listed in mutants/expect.json) and silence on legal refactorings (mutants/R*.patch: all 20
# checks must stay quiet). Runs in the scratch harness (tools/mutharness.sh), never in /repo.
#   tools/run_mutants.sh [name-prefix ...]      (default: all)
HERE="$(cd "$(dirname "$0")/.." && pwd)"
MH="${MH:-/tmp/mh}"; export MH
[ -d $MH/repo ] || "$HERE/tools/mutharness.sh" init
"$HERE/tools/mutharness.sh" sync >/dev/null 2>&1
ALL="C01 C02 C03 C04 C05 C06 C07 C08 C09 C10 C11 C12 C13 C14 C15 C16 C17 C18 C19 C20"
if [ $# -eq 0 ]; then set -- M R; fi
BAD=0
for pre in "$@"; do
  for p in "$HERE"/mutants/${pre}*.patch; do
    [ -f "$p" ] || continue
    name=$(basename "$p" .patch)
    exp=$(python3 -c "import json;print(' '.join(json.load(open('$HERE/mutants/expect.json'))['$name']['expect']))")
    if [ -z "$exp" ]; then echo "$name: equivalent mutant, nothing expected"; continue; fi
    if [ "$exp" = "SILENT" ]; then
      RES=$("$HERE/tools/mutharness.sh" run "$p" $ALL | cut -c1-300)
      if echo "$RES" | grep -q "CAUGHT"; then echo "$name: FALSE ALARM on a legal refactoring:"; echo "$RES" | grep CAUGHT; BAD=1; else echo "$name: silent (20 checks)"; fi
    else
      RES=$("$HERE/tools/mutharness.sh" run "$p" $exp | cut -c1-300)
      if echo "$RES" | grep -q "missed"; then echo "$name: MISSED by $(echo "$RES" | grep missed | cut -c1-5 | tr '\n' ' ') (expected: $exp)"; BAD=1; else echo "$name: caught by $exp"; fi
    fi
  done
done
exit $BAD
