#!/bin/sh
# Regenerates /verif/sim-par/shims/scoped_threadpool from the registry copy of scoped_threadpool
# 0.1.9: the REAL source with exactly three import lines retargeted from std to the shuttle-backed
# runtime and the test modules cut off. Fails if the difference is anything else.
set -e
HERE="$(cd "$(dirname "$0")/.." && pwd)"
SRC=$(ls -d "$HOME"/.cargo/registry/src/*/scoped_threadpool-0.1.9 2>/dev/null | head -1)
[ -n "$SRC" ] || { echo "scoped_threadpool-0.1.9 not in the cargo registry cache" >&2; exit 1; }
DST="$HERE/sim-par/shims/scoped_threadpool"
mkdir -p "$DST/src"
cat > "$DST/Cargo.toml" <<'TOML'
[package]
name = "scoped_threadpool"
version = "0.1.9"
edition = "2015"

[dependencies]
seq_io_verif_rt = { path = "../seq_io_verif_rt" }

[lints.rust]
bare_trait_objects = "allow"
missing_docs = "allow"
TOML
# cut at the test module
N=$(grep -n '^#\[cfg(test)\]$' "$SRC/src/lib.rs" | sed -n 2p | cut -d: -f1)
head -n $((N-1)) "$SRC/src/lib.rs" > "$DST/src/orig_head.rs.tmp"
sed -e 's|^use std::thread::{self, JoinHandle};$|use seq_io_verif_rt::thread::{self, JoinHandle};|' \
    -e 's|^use std::sync::mpsc::{channel, Sender, Receiver, SyncSender, sync_channel, RecvError};$|use seq_io_verif_rt::sync::mpsc::{channel, Sender, Receiver, SyncSender, sync_channel, RecvError};|' \
    -e 's|^use std::sync::{Arc, Mutex};$|use seq_io_verif_rt::sync::{Arc, Mutex};|' \
    -e 's|^extern crate lazy_static;$|extern crate seq_io_verif_rt;|' -e 's|^#\[cfg(test)\]$||' \
    "$DST/src/orig_head.rs.tmp" > "$DST/src/lib.rs"
CHANGED=$(diff "$DST/src/orig_head.rs.tmp" "$DST/src/lib.rs" | grep -c '^>' || true)
rm -f "$DST/src/orig_head.rs.tmp"
# 3 import lines + the extern crate line (edition 2015) + the blanked cfg(test) attribute of it
if [ "$CHANGED" != "5" ]; then echo "unexpected difference to scoped_threadpool 0.1.9 ($CHANGED changed lines)" >&2; exit 1; fi
echo "scoped_threadpool shim generated ($CHANGED lines differ from the registry source)"
