#!/bin/sh
# Confirms a seeded change delivered by a sub-agent and files it under /verif/seeded/<name>/.
#   tools/confirm_seeded.sh SRC_DIR NAME PROPERTY "NEEDS (free text)" CHECK-ID...
# In the scratch worktree $MH/repo (default /tmp/mh): (c) demo passes without the change, (a) the existing suite
# passes with it, (b) the demo fails with it. Then the listed checks are run against it.
set -e
HERE="$(cd "$(dirname "$0")/.." && pwd)"
SRC="$1"; NAME="$2"; PROP="$3"; NEEDS="$4"; shift 4
MH="${MH:-/tmp/mh}"; export MH
[ -d $MH/repo ] || "$HERE/tools/mutharness.sh" init
"$HERE/tools/mutharness.sh" sync >/dev/null 2>&1
D="$HERE/seeded/$NAME"; mkdir -p "$D"
cp "$SRC/patch.diff" "$D/patch.diff"
[ -f "$SRC/notes.md" ] && cp "$SRC/notes.md" "$D/notes.md"
DEMOS=$(ls "$SRC"/*.rs 2>/dev/null)
[ -n "$DEMOS" ] || { echo "no demo .rs in $SRC"; exit 1; }
R=$MH/repo
git -C $R checkout -q -- . ; git -C $R clean -fdq -e target
# a demo may need a dev-dependency (serde_json): that edit belongs to the demo, not to patch.diff
if [ -f "$SRC/cargo_toml_dev_dep.diff" ]; then cp "$SRC/cargo_toml_dev_dep.diff" "$D/"; git -C $R apply "$SRC/cargo_toml_dev_dep.diff"; fi
TESTARGS=""
for f in $DEMOS; do cp "$f" "$D/"; cp "$f" "$R/tests/"; TESTARGS="$TESTARGS --test $(basename $f .rs)"; done
echo "--- (c) demo without the change"
C=$(cd $R && timeout 600 cargo test --offline $TESTARGS 2>&1 | grep -E "^test result" | tr '\n' ' ')
echo "$C"
git -C $R apply "$D/patch.diff"
echo "--- (a) existing suite with the change"
A=$(cd $R && { timeout 600 cargo test --offline --test fasta --test fastq --lib 2>&1; timeout 600 cargo test --offline --doc 2>&1; } | grep -E "^test result" | tr '\n' ' ')
echo "$A"
echo "--- (b) demo with the change"
B=$(cd $R && timeout 600 cargo test --offline $TESTARGS 2>&1 | grep -E "^test result|panicked|timed out|SIGABRT|SIGSEGV|overflowed its stack" | head -8 | tr '\n' ' ')
echo "$B"
git -C $R checkout -q -- . ; git -C $R clean -fdq -e target
echo "--- checks"
RES=$("$HERE/tools/mutharness.sh" run "$D/patch.diff" "$@" 2>&1 | cut -c1-400) || true
echo "$RES"
python3 - "$D" "$PROP" "$NEEDS" "$A" "$B" "$C" "$RES" "$@" <<'PY'
import json,sys,re
d,prop,needs,a,b,c,res=sys.argv[1:8]; checks=sys.argv[8:]
caught=[(k,r or 'process_killed') for k,r in re.findall(r'\[(C\d+)\] CAUGHT: VIOLATION property=\S+ replay=\S+(?: rule=(\S+))?',res)]
missed=re.findall(r'\[(C\d+)\] missed',res)
ok_c=('FAILED' not in c and 'failed; ' in c and all(int(x)==0 for x in re.findall(r'(\d+) failed',c)))
ok_a=all(int(x)==0 for x in re.findall(r'(\d+) failed',a)) and 'test result' in a
ok_b=any(int(x)>0 for x in re.findall(r'(\d+) failed',b)) or 'panicked' in b or 'timed out' in b or 'SIGABRT' in b or 'SIGSEGV' in b or 'overflowed its stack' in b
meta={"property":prop,"source":"independent sub-agent (given only the property text and a scratch worktree)","needs_to_manifest":needs,
 "confirmed":{"suite_passes_with_change":ok_a,"demo_fails_with_change":ok_b,"demo_passes_without_change":ok_c,
   "ran":["cargo test --offline --test <demo>   (without the change): "+c.strip(),"cargo test --offline --test fasta --test fastq --lib; cargo test --offline --doc   (with the change): "+a.strip(),"cargo test --offline --test <demo>   (with the change): "+b.strip()[:300]]},
 "checks":checks,"caught_by":[{"check":k,"rule":r} for k,r in caught],"missed_by":missed}
json.dump(meta,open(d+'/meta.json','w'),indent=1)
print("CONFIRMED" if (ok_a and ok_b and ok_c) else "NOT-CONFIRMED", "caught_by",[k for k,_ in caught],"missed",missed)
PY
