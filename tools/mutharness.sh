#!/bin/sh
# Sensitivity harness: runs the checks against a scratch worktree of /repo with a patch applied,
# without touching /repo or /verif (so it can run next to background jobs).
#   tools/mutharness.sh init            create /tmp/mh (worktree of /repo HEAD + copy of the engines)
#   tools/mutharness.sh sync            refresh the engine copy and reset the worktree to /repo HEAD
#   tools/mutharness.sh run PATCH IDS.. apply PATCH to the scratch worktree, run ./check ID --dry for each ID, revert
#   tools/mutharness.sh clean           remove everything again
set -e
HERE="$(cd "$(dirname "$0")/.." && pwd)"
MH="${MH:-/tmp/mh}"
copy_engines() {
  mkdir -p $MH/verif
  rsync -a --delete --exclude target --exclude replays --exclude evidence "$HERE/core" "$HERE/sim-io" "$HERE/sim-par" "$HERE/tools" "$HERE/check" "$HERE/known_findings.json" $MH/verif/
  sed -i "s|path = \"/repo\"|path = \"$MH/repo\"|" $MH/verif/sim-io/Cargo.toml
  sed -i "s|path = \"/repo/src/lib.rs\"|path = \"$MH/repo/src/lib.rs\"|" $MH/verif/sim-par/shadow/Cargo.toml
  [ -f $MH/verif/sim-par/shims/scoped_threadpool/src/lib.rs ] || $MH/verif/tools/gen_shims.sh >/dev/null
}
case "$1" in
  init)
    rm -rf $MH; mkdir -p $MH
    git -C /repo worktree prune
    git -C /repo worktree add --detach $MH/repo HEAD >/dev/null 2>&1
    copy_engines
    echo "scratch harness at $MH (repo $(git -C $MH/repo rev-parse --short HEAD))" ;;
  sync)
    git -C $MH/repo checkout -q --detach "$(git -C /repo rev-parse HEAD)" && git -C $MH/repo checkout -q -- . && git -C $MH/repo clean -fdq
    copy_engines ;;
  run)
    PATCH="$(realpath "$2")"; shift 2
    git -C $MH/repo checkout -q -- . && git -C $MH/repo clean -fdq -e target
    if ! git -C $MH/repo apply "$PATCH"; then echo "PATCH-DOES-NOT-APPLY $PATCH"; exit 3; fi
    RC=0
    for id in "$@"; do
      OUT=$(cd $MH/verif && VERIF_DRY=1 ./check "$id" --tier quick 2>&1 | grep -E "VIOLATION|KNOWN|HARNESS|\(dry\)" | cut -c1-420) || true
      if echo "$OUT" | grep -q "VIOLATION"; then echo "[$id] CAUGHT: $(echo "$OUT" | grep VIOLATION | head -2 | tr '\n' ' ')"; else echo "[$id] missed: $(echo "$OUT" | tail -1 | cut -c1-200)"; RC=1; fi
    done
    git -C $MH/repo checkout -q -- . && git -C $MH/repo clean -fdq -e target
    exit $RC ;;
  clean)
    git -C /repo worktree remove --force $MH/repo 2>/dev/null || true
    rm -rf $MH; git -C /repo worktree prune ;;
  *) echo "usage: $0 init|sync|run PATCH IDS..|clean"; exit 2 ;;
esac
