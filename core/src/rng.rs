//! splitmix64 / xoshiro256** — the only source of randomness in the simulators.

#[inline]
fn splitmix(state: &mut u64) -> u64 {
    *state = state.wrapping_add(0x9E3779B97F4A7C15);
    let mut z = *state;
    z = (z ^ (z >> 30)).wrapping_mul(0xBF58476D1CE4E5B9);
    z = (z ^ (z >> 27)).wrapping_mul(0x94D049BB133111EB);
    z ^ (z >> 31)
}

/// Stateless mixing of two words (used to derive run seeds).
#[inline]
pub fn mix(a: u64, b: u64) -> u64 {
    let mut s = a ^ b.rotate_left(32) ^ 0xD6E8FEB86659FD93;
    let x = splitmix(&mut s);
    let mut t = x ^ b;
    splitmix(&mut t)
}

/// Interior mutability (Cell) so that a generator can be passed around as `&Rng` and used in
/// argument position freely. Never shared between threads.
#[derive(Clone, Debug)]
pub struct Rng {
    s: std::cell::Cell<[u64; 4]>,
}

impl Rng {
    pub fn new(seed: u64) -> Rng {
        let mut st = seed;
        let s = [
            splitmix(&mut st),
            splitmix(&mut st),
            splitmix(&mut st),
            splitmix(&mut st),
        ];
        Rng { s: std::cell::Cell::new(s) }
    }

    #[inline]
    pub fn next_u64(&self) -> u64 {
        let mut s = self.s.get();
        let result = s[1].wrapping_mul(5).rotate_left(7).wrapping_mul(9);
        let t = s[1] << 17;
        s[2] ^= s[0];
        s[3] ^= s[1];
        s[1] ^= s[2];
        s[0] ^= s[3];
        s[2] ^= t;
        s[3] = s[3].rotate_left(45);
        self.s.set(s);
        result
    }

    /// uniform in 0..n (n > 0)
    #[inline]
    pub fn below(&self, n: u64) -> u64 {
        debug_assert!(n > 0);
        // multiply-shift; bias is irrelevant here
        ((self.next_u64() as u128 * n as u128) >> 64) as u64
    }

    /// uniform in lo..=hi
    #[inline]
    pub fn range(&self, lo: usize, hi: usize) -> usize {
        if hi <= lo {
            return lo;
        }
        lo + self.below((hi - lo + 1) as u64) as usize
    }

    #[inline]
    pub fn chance(&self, num: u64, den: u64) -> bool {
        self.below(den) < num
    }

    #[inline]
    pub fn pick<'a, T>(&self, xs: &'a [T]) -> &'a T {
        &xs[self.below(xs.len() as u64) as usize]
    }

    /// small numbers are much more likely than large ones
    pub fn small(&self, max: usize) -> usize {
        if max == 0 {
            return 0;
        }
        let bits = self.below(64) as u32;
        let v = self.next_u64() >> bits.min(63);
        (v % (max as u64 + 1)) as usize
    }

    pub fn fork(&self) -> Rng {
        Rng::new(self.next_u64())
    }
}
