//! Shared core of the two simulators: PRNG, statistics, the seeded batch
//! runner, minimiser, replay files, known-findings matching and evidence
//! writer.  Nothing in here reads a clock, an address or a hash-map order on a
//! decision path; the only wall-clock reads are for `wall_s` in the evidence
//! and for the stuck-run watchdog (which can only fire on non-terminating
//! code).

use serde_json::{json, Value};
use std::collections::{BTreeMap, BTreeSet, HashSet};
use std::panic::{self, AssertUnwindSafe};
use std::sync::atomic::{AtomicBool, AtomicU64, AtomicUsize, Ordering};
use std::sync::{Arc, Mutex};
use std::time::{Duration, Instant};

pub mod rng;
pub use rng::{mix, Rng};

// ---------------------------------------------------------------------------
// Tier / options
// ---------------------------------------------------------------------------

#[derive(Clone, Copy, Debug, PartialEq, Eq)]
pub enum Tier {
    Quick,
    Thorough,
}

impl Tier {
    pub fn name(self) -> &'static str {
        match self {
            Tier::Quick => "quick",
            Tier::Thorough => "thorough",
        }
    }
}

#[derive(Clone, Debug)]
pub struct Opts {
    pub tier: Tier,
    pub seed: u64,
    pub workers: usize,
    pub replay: Option<String>,
    /// print a digest of all run logs instead of writing evidence (determinism self-test)
    pub digest: bool,
    /// override number of runs
    pub runs: Option<u64>,
    pub verif_dir: String,
    /// do not write evidence / replays (used by sensitivity drivers)
    pub dry: bool,
}

impl Opts {
    pub fn from_env_and_args(args: &[String]) -> Result<Opts, String> {
        let mut tier = match std::env::var("VERIF_TIER").ok().as_deref() {
            Some("thorough") => Tier::Thorough,
            _ => Tier::Quick,
        };
        let mut seed: u64 = std::env::var("VERIF_SEED")
            .ok()
            .and_then(|s| s.trim().parse::<i64>().ok().map(|v| v as u64))
            .unwrap_or(1);
        let mut workers = std::env::var("VERIF_WORKERS")
            .ok()
            .and_then(|s| s.parse().ok())
            .unwrap_or(16usize);
        let mut replay = None;
        let mut digest = false;
        let mut runs = std::env::var("VERIF_RUNS").ok().and_then(|s| s.parse().ok());
        let mut dry = std::env::var("VERIF_DRY").is_ok();
        let verif_dir = std::env::var("VERIF_DIR").unwrap_or_else(|_| "/verif".to_string());
        let mut i = 0;
        while i < args.len() {
            match args[i].as_str() {
                "--tier" => {
                    i += 1;
                    tier = match args.get(i).map(|s| s.as_str()) {
                        Some("quick") => Tier::Quick,
                        Some("thorough") => Tier::Thorough,
                        other => return Err(format!("bad --tier {:?}", other)),
                    };
                }
                "--seed" => {
                    i += 1;
                    seed = args
                        .get(i)
                        .and_then(|s| s.parse::<i64>().ok())
                        .ok_or("bad --seed")? as u64;
                }
                "--workers" => {
                    i += 1;
                    workers = args.get(i).and_then(|s| s.parse().ok()).ok_or("bad --workers")?;
                }
                "--runs" => {
                    i += 1;
                    runs = Some(args.get(i).and_then(|s| s.parse().ok()).ok_or("bad --runs")?);
                }
                "--replay" => {
                    i += 1;
                    replay = Some(args.get(i).ok_or("missing replay path")?.clone());
                }
                "--digest" => digest = true,
                "--dry" => dry = true,
                other => return Err(format!("unknown argument {}", other)),
            }
            i += 1;
        }
        Ok(Opts {
            tier,
            seed,
            workers: workers.max(1),
            replay,
            digest,
            runs,
            verif_dir,
            dry,
        })
    }
}

// ---------------------------------------------------------------------------
// Statistics collected during runs (all commutative, so the merged result does
// not depend on how runs were distributed over workers)
// ---------------------------------------------------------------------------

#[derive(Default, Clone)]
pub struct Stats {
    pub counters: BTreeMap<String, u64>,
    pub sets: BTreeMap<String, HashSet<u64>>,
}

impl Stats {
    pub fn new() -> Stats {
        Stats::default()
    }
    #[inline]
    pub fn count(&mut self, key: &str, n: u64) {
        if let Some(c) = self.counters.get_mut(key) {
            *c += n;
        } else {
            self.counters.insert(key.to_string(), n);
        }
    }
    #[inline]
    pub fn probe(&mut self, key: &str) {
        self.count(key, 1)
    }
    #[inline]
    pub fn set_insert(&mut self, set: &str, h: u64) {
        if let Some(s) = self.sets.get_mut(set) {
            s.insert(h);
        } else {
            let mut s = HashSet::new();
            s.insert(h);
            self.sets.insert(set.to_string(), s);
        }
    }
    pub fn get(&self, key: &str) -> u64 {
        self.counters.get(key).copied().unwrap_or(0)
    }
    pub fn set_len(&self, set: &str) -> usize {
        self.sets.get(set).map(|s| s.len()).unwrap_or(0)
    }
    pub fn merge(&mut self, other: Stats) {
        for (k, v) in other.counters {
            *self.counters.entry(k).or_insert(0) += v;
        }
        for (k, v) in other.sets {
            self.sets.entry(k).or_default().extend(v);
        }
    }
    pub fn with_prefix(&self, prefix: &str) -> BTreeMap<String, u64> {
        self.counters
            .iter()
            .filter(|(k, _)| k.starts_with(prefix))
            .map(|(k, v)| (k[prefix.len()..].to_string(), *v))
            .collect()
    }
}

// ---------------------------------------------------------------------------
// Violations
// ---------------------------------------------------------------------------

#[derive(Clone, Debug)]
pub struct Violation {
    /// stable rule id, e.g. "C04.exact_count"
    pub rule: String,
    pub detail: String,
    /// features of the failing scenario used by known-finding matchers
    pub features: BTreeSet<String>,
}

impl Violation {
    pub fn new(rule: &str, detail: String) -> Violation {
        Violation {
            rule: rule.to_string(),
            detail,
            features: BTreeSet::new(),
        }
    }
}

/// Result of executing one scenario.
pub struct RunResult {
    pub violations: Vec<Violation>,
    /// hash of the full event log of the run (determinism self-test)
    pub log_hash: u64,
}

pub trait Check: Sync {
    /// property id, e.g. "C04"
    fn id(&self) -> &str;
    fn engine(&self) -> &str;
    fn level(&self) -> &str {
        "exploration"
    }
    /// number of scenarios for a tier
    fn budget(&self, tier: Tier) -> u64;
    /// generate scenario `idx` from its run seed (JSON value = replayable scenario)
    fn generate(&self, rng: &Rng, tier: Tier, idx: u64) -> Value;
    /// execute + judge; must be a pure function of the scenario
    fn run(&self, scn: &Value, st: &mut Stats) -> RunResult;
    /// shrink candidates, most aggressive first
    fn shrink(&self, scn: &Value) -> Vec<Value>;
    /// how this check generates cases and what counts as non-trivial
    fn rule_text(&self) -> String;
    fn assumptions(&self) -> Vec<String>;
    fn components(&self) -> Value;
    /// abbreviated rendering of a scenario for the evidence samples
    fn sample(&self, scn: &Value) -> Value {
        scn.clone()
    }
    /// probes that must be non-zero for the evidence to be meaningful (reported, not enforced)
    fn expected_probes(&self) -> Vec<&'static str> {
        vec![]
    }
    /// number of leading run indices executed one after the other before the workers start (for
    /// engines in which a defect can poison process-global state)
    fn serial_prefix(&self) -> u64 {
        0
    }
    /// the scenario may kill the process (e.g. by an allocation failure, which aborts): it is
    /// written to an in-flight file first so that the wrapper can report it
    fn risky(&self, _scn: &Value) -> bool {
        false
    }
}

pub fn inflight_path(verif_dir: &str, worker: usize) -> String {
    format!("{}/replays/.inflight-{}-{}.json", verif_dir, std::process::id(), worker)
}

// ---------------------------------------------------------------------------
// Panic capture: a process-wide silent hook that stores the message in a
// thread local, so caught panics do not spam stderr and the message can be
// used in violation details.
// ---------------------------------------------------------------------------

thread_local! {
    pub static LAST_PANIC: std::cell::RefCell<Option<String>> = std::cell::RefCell::new(None);
    pub static QUIET_PANIC: std::cell::Cell<bool> = std::cell::Cell::new(false);
}

pub fn install_panic_hook() {
    let default = panic::take_hook();
    panic::set_hook(Box::new(move |info| {
        let msg = if let Some(s) = info.payload().downcast_ref::<&str>() {
            s.to_string()
        } else if let Some(s) = info.payload().downcast_ref::<String>() {
            s.clone()
        } else {
            "<non-string panic>".to_string()
        };
        let loc = info
            .location()
            .map(|l| format!("{}:{}", l.file(), l.line()))
            .unwrap_or_default();
        let quiet = QUIET_PANIC.with(|q| q.get());
        LAST_PANIC.with(|p| *p.borrow_mut() = Some(format!("{} @ {}", msg, loc)));
        if !quiet {
            default(info);
        }
    }));
}

/// Run `f`, catching a panic; returns Err(message).
pub fn catch<T>(f: impl FnOnce() -> T) -> Result<T, String> {
    let prev = QUIET_PANIC.with(|q| q.replace(true));
    LAST_PANIC.with(|p| *p.borrow_mut() = None);
    let r = panic::catch_unwind(AssertUnwindSafe(f));
    QUIET_PANIC.with(|q| q.set(prev));
    match r {
        Ok(v) => Ok(v),
        Err(_) => Err(LAST_PANIC
            .with(|p| p.borrow_mut().take())
            .unwrap_or_else(|| "<panic>".to_string())),
    }
}

// ---------------------------------------------------------------------------
// Known findings
// ---------------------------------------------------------------------------

#[derive(Clone, Debug)]
pub struct Finding {
    pub id: String,
    pub status: String, // "open" | "fixed"
    pub property: String,
    pub rule_prefix: String,
    pub requires: Vec<String>,
    pub forbids: Vec<String>,
    pub what: String,
}

pub fn load_findings(verif_dir: &str) -> Result<Vec<Finding>, String> {
    let path = format!("{}/known_findings.json", verif_dir);
    let txt = match std::fs::read_to_string(&path) {
        Ok(t) => t,
        Err(_) => return Ok(vec![]),
    };
    let v: Value = serde_json::from_str(&txt).map_err(|e| format!("{}: {}", path, e))?;
    let mut out = vec![];
    for f in v["findings"].as_array().cloned().unwrap_or_default() {
        let strs = |k: &str| -> Vec<String> {
            f[k].as_array()
                .map(|a| a.iter().filter_map(|x| x.as_str().map(String::from)).collect())
                .unwrap_or_default()
        };
        out.push(Finding {
            id: f["id"].as_str().unwrap_or("").to_string(),
            status: f["status"].as_str().unwrap_or("").to_string(),
            property: f["property"].as_str().unwrap_or("").to_string(),
            rule_prefix: f["matcher"]["rule"].as_str().unwrap_or("").to_string(),
            requires: {
                let m = &f["matcher"];
                m["requires"]
                    .as_array()
                    .map(|a| a.iter().filter_map(|x| x.as_str().map(String::from)).collect())
                    .unwrap_or_default()
            },
            forbids: {
                let m = &f["matcher"];
                m["forbids"]
                    .as_array()
                    .map(|a| a.iter().filter_map(|x| x.as_str().map(String::from)).collect())
                    .unwrap_or_default()
            },
            what: f["what"].as_str().unwrap_or("").to_string(),
        });
        let _ = strs;
    }
    Ok(out)
}

/// Only *open* findings of the same property match; fixed entries match nothing.
pub fn match_finding<'a>(findings: &'a [Finding], prop: &str, v: &Violation) -> Option<&'a Finding> {
    findings.iter().find(|f| {
        f.status == "open"
            && f.property == prop
            && !f.rule_prefix.is_empty()
            && v.rule.starts_with(&f.rule_prefix)
            && f.requires.iter().all(|r| v.features.contains(r))
            && !f.forbids.iter().any(|r| v.features.contains(r))
    })
}

// ---------------------------------------------------------------------------
// Minimiser
// ---------------------------------------------------------------------------

pub fn minimise(check: &dyn Check, scn: &Value, rule: &str, max_execs: usize) -> (Value, usize) {
    let mut cur = scn.clone();
    let mut execs = 0usize;
    let mut scratch = Stats::new();
    // bounded in executions and in wall clock (scenarios of tens of MiB take seconds per execution)
    let max_execs = std::env::var("VERIF_SHRINK_EXECS").ok().and_then(|x| x.parse().ok()).unwrap_or(max_execs);
    let t0 = Instant::now();
    'outer: loop {
        if execs >= max_execs || t0.elapsed() > Duration::from_secs(90) {
            break;
        }
        let cands = guarded(&cur, 0, || check.shrink(&cur));
        for cand in cands {
            if execs >= max_execs || t0.elapsed() > Duration::from_secs(90) {
                break 'outer;
            }
            if cand == cur {
                continue;
            }
            execs += 1;
            let r = guarded_run(check, &cand, &mut scratch, 0);
            if r.violations.iter().any(|v| v.rule == rule) {
                cur = cand;
                continue 'outer;
            }
        }
        break;
    }
    (cur, execs)
}

// ---------------------------------------------------------------------------
// Batch runner
// ---------------------------------------------------------------------------

fn fnv(bytes: &[u8]) -> u64 {
    let mut h: u64 = 0xcbf29ce484222325;
    for b in bytes {
        h ^= *b as u64;
        h = h.wrapping_mul(0x100000001b3);
    }
    h
}

pub fn hash_str(s: &str) -> u64 {
    fnv(s.as_bytes())
}

pub fn run_seed(batch_seed: u64, check_id: &str, idx: u64) -> u64 {
    mix(mix(batch_seed, hash_str(check_id)), idx)
}

struct Found {
    idx: u64,
    scn: Value,
    violations: Vec<Violation>,
}

const BLOCK: u64 = 64;
/// wall-clock limit of a single run; the slowest legitimate runs take 1-3 s on an idle machine
const WATCHDOG_SECS: u64 = 120;

static GLOBAL_OPTS: std::sync::OnceLock<Opts> = std::sync::OnceLock::new();

/// A run has left the process in a state in which no further scenario can be executed safely
/// (e.g. threads of the system under test that outlive their execution). The scenario is written
/// out unminimised, confirmed in a fresh process and reported; the process exits.
pub fn report_fatal(check: &dyn Check, scn: &Value, v: &Violation) -> ! {
    let opts = GLOBAL_OPTS.get().cloned().unwrap_or(Opts { tier: Tier::Quick, seed: 1, workers: 1, replay: None, digest: false, runs: None, verif_dir: "/verif".into(), dry: true });
    if opts.replay.is_some() {
        // already replaying: the caller reports normally
        println!("VIOLATION property={} replay={}", check.id(), opts.replay.clone().unwrap());
        println!("  rule={} detail={}", v.rule, v.detail);
        std::process::exit(1);
    }
    if opts.dry {
        println!("VIOLATION property={} replay=<dry> rule={} detail={}", check.id(), v.rule, truncate(&v.detail, 300));
        println!("  (fatal for the process: not minimised) scenario: {}", truncate(&scn.to_string(), 1200));
        std::process::exit(1);
    }
    let path = write_replay(check, &opts, scn, v, 0, false, 0);
    match confirm_in_fresh_process(&path) {
        Ok(true) => {
            println!("VIOLATION property={} replay={}", check.id(), path);
            println!("  rule={} detail={}", v.rule, truncate(&v.detail, 400));
            std::process::exit(1);
        }
        _ => {
            eprintln!("HARNESS-ERROR: fatal violation {} did not reproduce in a fresh process ({})", v.rule, path);
            std::process::exit(2);
        }
    }
}

/// Scenario currently executed on the main thread (serial prefix, minimisation, replay), watched by
/// `start_main_watchdog`: the worker watchdog of the batch loop does not see these executions.
static MAIN_SLOT: Mutex<Option<(String, Instant, u64)>> = Mutex::new(None);

/// `check.run` on the main thread under the wall-clock watchdog.
pub fn guarded_run(check: &dyn Check, scn: &Value, st: &mut Stats, idx: u64) -> RunResult {
    guarded(scn, idx, || check.run(scn, st))
}

/// Anything that executes `scn` on the main thread (a check's `shrink` may do so as well).
pub fn guarded<T>(scn: &Value, idx: u64, f: impl FnOnce() -> T) -> T {
    *MAIN_SLOT.lock().unwrap() = Some((scn.to_string(), Instant::now(), idx));
    let r = f();
    *MAIN_SLOT.lock().unwrap() = None;
    r
}

fn start_main_watchdog(check: &dyn Check, opts: &Opts) {
    let id = check.id().to_string();
    let engine = check.engine().to_string();
    let opts = opts.clone();
    std::thread::spawn(move || loop {
        std::thread::sleep(Duration::from_millis(200));
        let stuck = {
            let g = MAIN_SLOT.lock().unwrap();
            match g.as_ref() {
                Some((scn, since, idx)) if since.elapsed() > Duration::from_secs(WATCHDOG_SECS) => Some((scn.clone(), *idx)),
                _ => None,
            }
        };
        if let Some((scn, idx)) = stuck {
            let rule = format!("{}.hang_wallclock", id);
            let detail = "run did not finish within 120 s of wall clock (no seam call budget hit)";
            if let Some(path) = &opts.replay {
                println!("VIOLATION property={} replay={}", id, path);
                println!("  rule={} detail={}", rule, detail);
                std::process::exit(1);
            }
            if opts.dry {
                println!("VIOLATION property={} replay=<dry> rule={} detail={}", id, rule, detail);
                println!("  scenario: {}", truncate(&scn, 1200));
                std::process::exit(1);
            }
            let scn: Value = serde_json::from_str(&scn).unwrap_or(Value::Null);
            let dir = format!("{}/replays", opts.verif_dir);
            let _ = std::fs::create_dir_all(&dir);
            let body = json!({"property": id, "engine": engine, "rule": rule, "detail": detail, "features": [], "batch_seed": opts.seed as i64, "run_index": idx, "minimised": false, "shrink_executions": 0, "scenario": scn});
            let h = fnv(scn.to_string().as_bytes()) ^ fnv(rule.as_bytes());
            let path = format!("{}/{}-{:012x}.json", dir, id, h & 0xffff_ffff_ffff);
            let _ = std::fs::write(&path, serde_json::to_string_pretty(&body).unwrap());
            println!("VIOLATION property={} replay={}", id, path);
            println!("  rule={} detail={}", rule, detail);
            std::process::exit(1);
        }
    });
}

pub fn main_for(check: &dyn Check, opts: &Opts) -> i32 {
    install_panic_hook();
    let _ = GLOBAL_OPTS.set(opts.clone());
    start_main_watchdog(check, opts);
    if let Some(path) = &opts.replay {
        return replay_file(check, path);
    }
    let t0 = Instant::now();
    let total = opts.runs.unwrap_or_else(|| check.budget(opts.tier));
    let next = AtomicU64::new(0);
    let stop = AtomicBool::new(false);
    let found: Mutex<Vec<Found>> = Mutex::new(vec![]);
    let merged: Mutex<Stats> = Mutex::new(Stats::new());
    let digests: Mutex<Vec<(u64, u64)>> = Mutex::new(vec![]);
    let samples: Mutex<Vec<(u64, Value)>> = Mutex::new(vec![]);
    let done_runs = AtomicU64::new(0);
    // watchdog slots: (scenario json, start instant) per worker
    let slots: Vec<Mutex<Option<(String, Instant, u64)>>> =
        (0..opts.workers).map(|_| Mutex::new(None)).collect();
    let finished_workers = AtomicUsize::new(0);
    let hang: Mutex<Option<(String, u64)>> = Mutex::new(None);
    // wall clock of the slowest single run (reporting only: distance to the watchdog)
    let slowest_us = AtomicU64::new(0);

    // serial prefix (see Check::serial_prefix)
    let prefix = check.serial_prefix().min(total);
    {
        let mut st = Stats::new();
        for idx in 0..prefix {
            let rng = Rng::new(run_seed(opts.seed, check.id(), idx));
            let scn = check.generate(&rng, opts.tier, idx);
            let r = guarded_run(check, &scn, &mut st, idx);
            done_runs.fetch_add(1, Ordering::Relaxed);
            if opts.digest {
                digests.lock().unwrap().push((idx, r.log_hash));
            }
            if idx < 4 {
                samples.lock().unwrap().push((idx, check.sample(&scn)));
            }
            if !r.violations.is_empty() {
                found.lock().unwrap().push(Found { idx, scn, violations: r.violations });
                stop.store(true, Ordering::SeqCst);
                break;
            }
        }
        merged.lock().unwrap().merge(st);
    }
    next.store(prefix, Ordering::SeqCst);
    let _ = std::fs::create_dir_all(format!("{}/replays", opts.verif_dir));

    std::thread::scope(|s| {
        for w in 0..opts.workers {
            let next = &next;
            let stop = &stop;
            let found = &found;
            let merged = &merged;
            let digests = &digests;
            let samples = &samples;
            let slots = &slots;
            let done_runs = &done_runs;
            let finished_workers = &finished_workers;
            let slowest_us = &slowest_us;
            s.spawn(move || {
                let mut st = Stats::new();
                let mut local_digests = vec![];
                loop {
                    if stop.load(Ordering::SeqCst) {
                        break;
                    }
                    let start = next.fetch_add(BLOCK, Ordering::SeqCst);
                    if start >= total {
                        break;
                    }
                    let end = (start + BLOCK).min(total);
                    for idx in start..end {
                        let rng = Rng::new(run_seed(opts.seed, check.id(), idx));
                        let scn = check.generate(&rng, opts.tier, idx);
                        *slots[w].lock().unwrap() =
                            Some((serde_json::to_string(&scn).unwrap_or_default(), Instant::now(), idx));
                        let risky = check.risky(&scn);
                        if risky {
                            let body = json!({"property": check.id(), "engine": check.engine(), "rule": format!("{}.process_killed", check.id()), "detail": "the process died while executing this scenario (abort, e.g. allocation failure)", "minimised": false, "run_index": idx, "scenario": scn});
                            let _ = std::fs::write(inflight_path(&opts.verif_dir, w), body.to_string());
                        }
                        let t_run = Instant::now();
                        let r = check.run(&scn, &mut st);
                        slowest_us.fetch_max(t_run.elapsed().as_micros() as u64, Ordering::Relaxed);
                        if risky {
                            let _ = std::fs::remove_file(inflight_path(&opts.verif_dir, w));
                        }
                        *slots[w].lock().unwrap() = None;
                        done_runs.fetch_add(1, Ordering::Relaxed);
                        if opts.digest {
                            local_digests.push((idx, r.log_hash));
                        }
                        if idx < 4 || (idx % 977 == 0 && idx < 977 * 4) {
                            samples.lock().unwrap().push((idx, check.sample(&scn)));
                        }
                        if !r.violations.is_empty() {
                            found.lock().unwrap().push(Found {
                                idx,
                                scn,
                                violations: r.violations,
                            });
                            // finish this block (determinism of "lowest index"), then stop
                            stop.store(true, Ordering::SeqCst);
                        }
                    }
                }
                merged.lock().unwrap().merge(st);
                digests.lock().unwrap().extend(local_digests);
                finished_workers.fetch_add(1, Ordering::SeqCst);
            });
        }
        // watchdog (this thread): only fires on a run stuck for > WATCHDOG_SECS
        loop {
            if finished_workers.load(Ordering::SeqCst) == opts.workers {
                break;
            }
            std::thread::sleep(Duration::from_millis(50));
            for slot in slots.iter() {
                let g = slot.lock().unwrap();
                if let Some((scn, since, idx)) = g.as_ref() {
                    if since.elapsed() > Duration::from_secs(WATCHDOG_SECS) {
                        *hang.lock().unwrap() = Some((scn.clone(), *idx));
                    }
                }
            }
            if hang.lock().unwrap().is_some() {
                // a worker is stuck in a pure CPU loop: report and leave the process
                let (scn, idx) = hang.lock().unwrap().clone().unwrap();
                let scn: Value = serde_json::from_str(&scn).unwrap_or(Value::Null);
                let v = Violation::new(
                    &format!("{}.hang_wallclock", check.id()),
                    "run did not finish within 120 s of wall clock (no seam call budget hit)".into(),
                );
                let path = write_replay(check, opts, &scn, &v, idx, false, 0);
                println!("VIOLATION property={} replay={}", check.id(), path);
                std::process::exit(1);
            }
        }
    });

    let stats = merged.into_inner().unwrap();
    let evaluations = done_runs.load(Ordering::SeqCst);

    if opts.digest {
        let mut d = digests.into_inner().unwrap();
        d.sort();
        let mut h = 0u64;
        for (i, x) in &d {
            h = mix(mix(h, *i), *x);
        }
        println!("DIGEST check={} runs={} digest={:016x}", check.id(), d.len(), h);
        return 0;
    }

    // --- violations: minimise, confirm by fresh-process replay, match findings
    let mut found = found.into_inner().unwrap();
    found.sort_by_key(|f| f.idx);
    let findings = match load_findings(&opts.verif_dir) {
        Ok(f) => f,
        Err(e) => {
            eprintln!("HARNESS-ERROR: {}", e);
            return 2;
        }
    };
    let mut reported_rules: BTreeSet<String> = BTreeSet::new();
    let mut n_violation = 0;
    let mut known_lines: Vec<String> = vec![];
    let mut harness_error = false;
    let mut viol_summaries = vec![];
    for f in &found {
        for v in &f.violations {
            if reported_rules.len() >= 6 || reported_rules.contains(&v.rule) {
                continue;
            }
            reported_rules.insert(v.rule.clone());
            // if the defect poisons the process, minimising may kill it: leave the unminimised
            // scenario where the wrapper finds it
            let guard = inflight_path(&opts.verif_dir, 9999);
            let body = json!({"property": check.id(), "engine": check.engine(), "rule": v.rule, "detail": v.detail, "minimised": false, "run_index": f.idx, "scenario": f.scn});
            let _ = std::fs::write(&guard, body.to_string());
            let (min_scn, steps) = minimise(check, &f.scn, &v.rule, 4000);
            let _ = std::fs::remove_file(&guard);
            // re-run the minimised scenario to get its own detail/features
            let mut scratch = Stats::new();
            let rr = guarded_run(check, &min_scn, &mut scratch, f.idx);
            let mv = rr
                .violations
                .iter()
                .find(|x| x.rule == v.rule)
                .cloned()
                .unwrap_or_else(|| v.clone());
            if let Some(k) = match_finding(&findings, check.id(), &mv) {
                known_lines.push(format!(
                    "KNOWN-FINDING: property={} {} [{}] {}",
                    check.id(),
                    k.id,
                    mv.rule,
                    k.what
                ));
                continue;
            }
            if opts.dry {
                n_violation += 1;
                println!(
                    "VIOLATION property={} replay=<dry> rule={} detail={}",
                    check.id(),
                    mv.rule,
                    truncate(&mv.detail, 300)
                );
                println!("  minimised scenario: {}", truncate(&min_scn.to_string(), 1200));
                continue;
            }
            let path = write_replay(check, opts, &min_scn, &mv, f.idx, true, steps);
            // fresh-process confirmation
            match confirm_in_fresh_process(&path) {
                Ok(true) => {
                    n_violation += 1;
                    println!("VIOLATION property={} replay={}", check.id(), path);
                    println!("  rule={} detail={}", mv.rule, truncate(&mv.detail, 400));
                    viol_summaries.push(json!({"rule": mv.rule, "replay": path, "detail": truncate(&mv.detail, 400)}));
                }
                Ok(false) => {
                    eprintln!(
                        "HARNESS-ERROR: violation {} did not reproduce in a fresh process ({})",
                        mv.rule, path
                    );
                    harness_error = true;
                }
                Err(e) => {
                    eprintln!("HARNESS-ERROR: replay failed to start: {}", e);
                    harness_error = true;
                }
            }
        }
    }
    for l in &known_lines {
        println!("{}", l);
    }

    // --- evidence
    if !opts.dry {
        let mut samples = samples.into_inner().unwrap();
        samples.sort_by_key(|s| s.0);
        let samples: Vec<Value> = samples.into_iter().take(5).map(|s| s.1).collect();
        let wall = t0.elapsed().as_secs_f64();
        let distinct_nontrivial = stats.set_len("nontrivial") as u64;
        let mut coverage = json!({
            "evaluations": evaluations,
            "distinct_nontrivial": distinct_nontrivial,
            "rule": check.rule_text(),
            "samples": samples,
            "planned_runs": total,
            "runs_per_hour": if wall > 0.0 { (evaluations as f64 / wall * 3600.0) as u64 } else { 0 },
            "slowest_run_ms": slowest_us.load(Ordering::Relaxed) / 1000,
            "sim_steps": stats.with_prefix("step."),
            "fault_counts_fired": stats.with_prefix("fault."),
            "probe_counts": stats.with_prefix("probe."),
            "op_counts": stats.with_prefix("op."),
            "outcome_counts": stats.with_prefix("outcome."),
            "distinct_states": stats.set_len("states"),
            "distinct_schedules": stats.set_len("schedules"),
            "distinct_arrival_orders": stats.set_len("arrivals"),
            "simulated_time": "not applicable: seq_io reads no clock; sim_steps counts seam calls / scheduler decisions instead",
            "components": check.components(),
            "known_findings_matched": known_lines,
            "violation_reports": viol_summaries,
            "workers": opts.workers,
        });
        let zero: Vec<&str> = check
            .expected_probes()
            .into_iter()
            .filter(|p| stats.get(&format!("probe.{}", p)) == 0)
            .collect();
        coverage["probes_at_zero"] = json!(zero);
        let ev = json!({
            "property_id": check.id(),
            "tier": opts.tier.name(),
            "seed": opts.seed as i64,
            "level": check.level(),
            "coverage": coverage,
            "assumptions": check.assumptions(),
            "wall_s": wall,
            "violations": n_violation,
        });
        let dir = format!("{}/evidence", opts.verif_dir);
        let _ = std::fs::create_dir_all(&dir);
        let path = format!("{}/{}.json", dir, check.id());
        if let Err(e) = std::fs::write(&path, serde_json::to_string_pretty(&ev).unwrap()) {
            eprintln!("HARNESS-ERROR: cannot write evidence {}: {}", path, e);
            return 2;
        }
        println!(
            "{}: tier={} seed={} runs={} distinct_nontrivial={} violations={} known={} wall={:.1}s",
            check.id(),
            opts.tier.name(),
            opts.seed,
            evaluations,
            distinct_nontrivial,
            n_violation,
            ev["coverage"]["known_findings_matched"].as_array().map(|a| a.len()).unwrap_or(0),
            wall
        );
    }
    if opts.dry {
        println!(
            "{}: (dry) runs={} nontrivial={} states={} violations={} wall={:.1}s slowest_run={}ms probes={:?}",
            check.id(),
            evaluations,
            stats.set_len("nontrivial"),
            stats.set_len("states"),
            n_violation,
            t0.elapsed().as_secs_f64(),
            slowest_us.load(Ordering::Relaxed) / 1000,
            stats.with_prefix("probe.")
        );
    }
    if harness_error {
        return 2;
    }
    if n_violation > 0 {
        1
    } else {
        0
    }
}

fn truncate(s: &str, n: usize) -> String {
    if s.len() <= n {
        s.to_string()
    } else {
        let mut end = n;
        while !s.is_char_boundary(end) {
            end -= 1;
        }
        format!("{}…", &s[..end])
    }
}

fn write_replay(
    check: &dyn Check,
    opts: &Opts,
    scn: &Value,
    v: &Violation,
    idx: u64,
    minimised: bool,
    shrink_execs: usize,
) -> String {
    let dir = format!("{}/replays", opts.verif_dir);
    let _ = std::fs::create_dir_all(&dir);
    let body = json!({
        "property": check.id(),
        "engine": check.engine(),
        "rule": v.rule,
        "detail": v.detail,
        "features": v.features,
        "batch_seed": opts.seed as i64,
        "run_index": idx,
        "minimised": minimised,
        "shrink_executions": shrink_execs,
        "scenario": scn,
    });
    let txt = serde_json::to_string_pretty(&body).unwrap();
    let h = fnv(scn.to_string().as_bytes()) ^ fnv(v.rule.as_bytes());
    let path = format!("{}/{}-{:012x}.json", dir, check.id(), h & 0xffff_ffff_ffff);
    let _ = std::fs::write(&path, txt);
    path
}

fn confirm_in_fresh_process(path: &str) -> Result<bool, String> {
    let exe = std::env::current_exe().map_err(|e| e.to_string())?;
    // argv[1] is the check id for both engines
    let id = std::env::args().nth(1).unwrap_or_default();
    let out = std::process::Command::new(exe)
        .arg(id)
        .arg("--replay")
        .arg(path)
        .output()
        .map_err(|e| e.to_string())?;
    let stdout = String::from_utf8_lossy(&out.stdout);
    Ok(out.status.code() == Some(1) && stdout.contains("VIOLATION property="))
}

pub fn replay_file(check: &dyn Check, path: &str) -> i32 {
    let txt = match std::fs::read_to_string(path) {
        Ok(t) => t,
        Err(e) => {
            eprintln!("HARNESS-ERROR: cannot read {}: {}", path, e);
            return 2;
        }
    };
    let v: Value = match serde_json::from_str(&txt) {
        Ok(v) => v,
        Err(e) => {
            eprintln!("HARNESS-ERROR: bad replay file {}: {}", path, e);
            return 2;
        }
    };
    if v["property"].as_str() != Some(check.id()) {
        eprintln!(
            "HARNESS-ERROR: replay file is for property {:?}, not {}",
            v["property"],
            check.id()
        );
        return 2;
    }
    let rule = v["rule"].as_str().unwrap_or("").to_string();
    let scn = &v["scenario"];
    let mut st = Stats::new();
    let r = guarded_run(check, scn, &mut st, 0);
    let mut hit = false;
    for x in &r.violations {
        if rule.is_empty() || x.rule == rule {
            println!("VIOLATION property={} replay={}", check.id(), path);
            println!("  rule={} detail={}", x.rule, x.detail);
            hit = true;
            break;
        }
    }
    if hit {
        1
    } else {
        if let Some(x) = r.violations.first() {
            println!(
                "replay: recorded rule {} not reproduced, but {} fired: {}",
                rule, x.rule, x.detail
            );
            println!("VIOLATION property={} replay={}", check.id(), path);
            return 1;
        }
        println!("replay: no violation reproduced for {}", path);
        0
    }
}

pub fn arc_none<T>() -> Arc<Mutex<Option<T>>> {
    Arc::new(Mutex::new(None))
}
