//! C10 (FASTA writers), C11 (FASTQ writers + write_unchanged), C18 (steady-state allocation).

use crate::alloc;
use crate::checks::*;
use crate::drive::{drive, Out};
use crate::gen::*;
use crate::model::RecObs;
use crate::scn::*;
use crate::seam::{new_seam, SimPolicy, SimSink, SimSource};
use seq_io::{fasta, fastq};
use serde_derive::{Deserialize, Serialize};
use serde_json::Value;
use std::rc::Rc;
use vcore::{Check, Rng, RunResult, Stats, Tier, Violation};

fn bad_scn() -> RunResult {
    RunResult {
        violations: vec![Violation::new("harness.bad_scenario", "scenario does not parse".into())],
        log_hash: 0,
    }
}

fn hash_bytes(b: &[u8]) -> u64 {
    let mut h: u64 = 0xcbf29ce484222325;
    for c in b {
        h ^= *c as u64;
        h = h.wrapping_mul(0x100000001b3);
    }
    h
}

fn chunks_of<'a>(seq: &'a [u8], cuts: &[usize]) -> Vec<&'a [u8]> {
    let mut c: Vec<usize> = cuts.iter().map(|x| (*x).min(seq.len())).collect();
    c.sort();
    let mut out = vec![];
    let mut prev = 0;
    for x in c {
        out.push(&seq[prev..x]);
        prev = x;
    }
    out.push(&seq[prev..]);
    out
}

fn split_id_desc(head: &[u8]) -> (&[u8], Option<&[u8]>) {
    match head.iter().position(|b| *b == b' ') {
        Some(i) => (&head[..i], Some(&head[i + 1..])),
        None => (head, None),
    }
}

/// The same record through two more kinds of sink: one with a real gathering `write_vectored`
/// that stops wherever the script says (socket / pipe like), and a small `BufWriter` in front of the
/// scripted sink. Returns the bytes each of them received (or the failure).
fn other_sinks(script: &[u32], st: &mut Stats, write: &dyn Fn(&mut dyn std::io::Write) -> std::io::Result<()>) -> Vec<(&'static str, Result<Vec<u8>, String>)> {
    use std::io::Write;
    let mut res = vec![];
    let mut g = SimSink::gathering(script, None);
    let r = vcore::catch(|| write(&mut g));
    sink_stats(&g, st);
    st.count("step.sink_vectored_calls", g.vectored_calls as u64);
    if g.vectored_mid_slice > 0 {
        st.probe("probe.vectored_write_stopped_inside_a_slice");
    }
    res.push(("a sink with a gathering write_vectored and short writes", match r {
        Ok(Ok(())) => Ok(std::mem::take(&mut g.out)),
        other => Err(format!("{:?}", other)),
    }));
    let cap = 1 + (script.iter().map(|x| *x as usize).sum::<usize>() % 24);
    let mut inner = SimSink::new(script, None);
    let r = vcore::catch(|| {
        let mut bw = std::io::BufWriter::with_capacity(cap, &mut inner);
        write(&mut bw)?;
        bw.flush()
    });
    sink_stats(&inner, st);
    res.push(("a small BufWriter over a sink with short writes", match r {
        Ok(Ok(())) => Ok(std::mem::take(&mut inner.out)),
        other => Err(format!("{:?}", other)),
    }));
    res
}

/// A write that fails half-way (the sink returns an error at its k-th call) must leave nothing
/// behind: whatever is written next on this thread has to come out as if nothing had happened.
/// Returns false if the failing sink did not make the write fail (nothing to learn then).
fn failed_write_first(k: usize, st: &mut Stats, write: &dyn Fn(&mut dyn std::io::Write) -> std::io::Result<()>) -> FailedFirst {
    let kind = [std::io::ErrorKind::BrokenPipe, std::io::ErrorKind::WriteZero, std::io::ErrorKind::Other, std::io::ErrorKind::WouldBlock][k % 4];
    let mut bad = SimSink::new(&[3], Some((k, kind)));
    let r = vcore::catch(|| write(&mut bad));
    let failed = matches!(r, Ok(Err(_)));
    if failed {
        st.count("fault.sink_error", 1);
        return FailedFirst::Failed;
    }
    if matches!(r, Ok(Ok(()))) && bad.faults > 0 {
        // the sink did fail, the write function reported success: what it claims to have written
        // must be there ("writing ... produces text that parses back" - a success without the text is
        // the same broken promise as a wrong text)
        let mut plain = SimSink::new(&[], None);
        if let Ok(Ok(())) = vcore::catch(|| write(&mut plain)) {
            if plain.out != bad.out {
                st.count("fault.sink_error", 1);
                return FailedFirst::Swallowed(format!("the sink failed with {:?} at its write call no. {}, the write function returned Ok(()), but the sink holds {:?} instead of {:?}", kind, k, show(&bad.out), show(&plain.out)));
            }
        }
    }
    FailedFirst::NotFailed
}

enum FailedFirst {
    Failed,
    NotFailed,
    /// the sink returned an error, the write function returned Ok(()) and the output is incomplete
    Swallowed(String),
}

fn sink_stats(s: &SimSink, st: &mut Stats) {
    st.count("fault.sink_short_write", s.short_writes as u64);
    st.count("fault.sink_interrupted", s.interrupts as u64);
    st.count("step.sink_calls", s.calls as u64);
}

// ===========================================================================
// C10
// ===========================================================================

pub struct C10;

#[derive(Serialize, Deserialize, Clone, Debug, PartialEq)]
pub struct WRec {
    #[serde(with = "esc")]
    pub head: Vec<u8>,
    #[serde(with = "esc")]
    pub seq: Vec<u8>,
    pub cuts: Vec<usize>,
    pub entry: u8,
    pub width: usize,
}

#[derive(Serialize, Deserialize, Clone, Debug, PartialEq)]
pub struct C10Scn {
    pub recs: Vec<WRec>,
    pub sink_script: Vec<u32>,
    pub read_cfg: Cfg,
}

pub const C10_ENTRIES: &[&str] = &[
    "write_to",
    "write_parts",
    "write_wrap",
    "write_head+write_seq",
    "write_head+write_wrap_seq",
    "write_head+write_seq_iter",
    "write_id_desc+write_wrap_seq_iter",
    "OwnedRecord::write",
    "OwnedRecord::write_wrap",
    "RefRecord::write",
    "RefRecord::write_wrap",
    "write_head+write_wrap_seq_iter",
    "write_head+write_seq_iter(filter)",
    "write_head+write_wrap_seq_iter(filter)",
    "RefRecord(CRLF source)::write",
    "RefRecord(CRLF source)::write_wrap",
    "RefRecord(mixed LF/CRLF source)::write",
    "RefRecord(mixed LF/CRLF source)::write_wrap",
];

fn entry_wrapped(e: u8) -> bool {
    matches!(e, 2 | 4 | 6 | 8 | 10 | 11 | 13 | 15 | 17)
}

fn entry_chunked(e: u8) -> bool {
    matches!(e, 5 | 6 | 9 | 10 | 11 | 12 | 13 | 14 | 15 | 16 | 17)
}

/// write one record through entry point `e` into `w`
fn write_c10<W: std::io::Write>(r: &WRec, e: u8, w: &mut W) -> std::io::Result<()> {
    use fasta::Record;
    let width = r.width.max(1);
    let (id, desc) = split_id_desc(&r.head);
    let chunks = chunks_of(&r.seq, &r.cuts);
    match e {
        0 => fasta::write_to(&mut *w, &r.head, &r.seq),
        1 => fasta::write_parts(&mut *w, id, desc, &r.seq),
        2 => fasta::write_wrap(&mut *w, id, desc, &r.seq, width),
        3 => {
            fasta::write_head(&mut *w, &r.head)?;
            fasta::write_seq(&mut *w, &r.seq)
        }
        4 => {
            fasta::write_head(&mut *w, &r.head)?;
            fasta::write_wrap_seq(&mut *w, &r.seq, width)
        }
        5 => {
            fasta::write_head(&mut *w, &r.head)?;
            fasta::write_seq_iter(&mut *w, chunks.iter().copied())
        }
        6 => {
            fasta::write_id_desc(&mut *w, id, desc)?;
            fasta::write_wrap_seq_iter(&mut *w, chunks.iter().copied(), width)
        }
        7 => fasta::OwnedRecord { head: r.head.clone(), seq: r.seq.clone() }.write(&mut *w),
        8 => fasta::OwnedRecord { head: r.head.clone(), seq: r.seq.clone() }.write_wrap(&mut *w, width),
        9 | 10 | 14 | 15 | 16 | 17 => {
            // a RefRecord whose sequence lines are the chunks (LF, CRLF, or per-line mixed source text)
            let term = |k: usize| -> &'static [u8] {
                match e {
                    14 | 15 => b"\r\n",
                    // the pattern of terminators is a function of the record
                    16 | 17 => if (r.width % 3 + r.head.len() + k * (1 + r.cuts.len())) % 3 == 1 { b"\r\n" } else { b"\n" },
                    _ => b"\n",
                }
            };
            let mut src = vec![b'>'];
            src.extend_from_slice(&r.head);
            src.extend_from_slice(term(0));
            for (k, c) in chunks.iter().enumerate() {
                src.extend_from_slice(c);
                src.extend_from_slice(term(k + 1));
            }
            let mut rd = fasta::Reader::new(&src[..]);
            let rec = rd.next().expect("source record").expect("valid source record");
            if e == 9 || e == 14 || e == 16 {
                rec.write(&mut *w)
            } else {
                rec.write_wrap(&mut *w, width)
            }
        }
        12 => {
            // an iterator without exact size (lower size-hint bound 0)
            fasta::write_head(&mut *w, &r.head)?;
            fasta::write_seq_iter(&mut *w, chunks.iter().copied().filter(|_| true))
        }
        13 => {
            fasta::write_head(&mut *w, &r.head)?;
            fasta::write_wrap_seq_iter(&mut *w, chunks.iter().copied().filter(|_| true), width)
        }
        _ => {
            fasta::write_head(&mut *w, &r.head)?;
            fasta::write_wrap_seq_iter(&mut *w, chunks.iter().copied(), width)
        }
    }
}

fn gen_wseq(rng: &Rng, max: usize) -> Vec<u8> {
    if rng.chance(1, 120) {
        // lengths at and next to multiples of powers of two (fixed-size scratch buffers)
        let p = *rng.pick(&[64usize, 256, 1024, 4096, 4096, 8192, 65536]);
        let n = (p * rng.range(1, 2) + rng.range(0, 2)).saturating_sub(1);
        return (0..n).map(|i| b"ACGT"[(i / 7) % 4]).collect();
    }
    let n = match rng.below(6) {
        0 => 0,
        1 => rng.range(1, 3),
        _ => rng.small(max),
    };
    (0..n)
        .map(|_| {
            if rng.chance(1, 15) {
                let mut b = rng.below(256) as u8;
                if b == b'\n' || b == b'\r' || b == b'>' {
                    b = b'N';
                }
                b
            } else {
                *rng.pick(b"ACGTN")
            }
        })
        .collect()
}

pub fn gen_c10(rng: &Rng, tier: Tier) -> C10Scn {
    let max = match tier {
        Tier::Quick => 40,
        Tier::Thorough => 160,
    };
    let n = 1 + rng.small(5);
    let mut recs = vec![];
    for _ in 0..n {
        let seq = gen_wseq(rng, max);
        let width = match rng.below(6) {
            0 => 1,
            1 if !seq.is_empty() => seq.len(),
            2 if seq.len() > 1 => {
                // a divisor-ish width: the sequence length is a multiple of it
                let d = rng.range(1, seq.len());
                if seq.len() % d == 0 { d } else { (seq.len() / d).max(1) }
            }
            _ => rng.range(1, 20),
        };
        // "all wrap widths >= 1": now and then one at the far end of usize (callers pass usize::MAX
        // to say "do not wrap")
        let width = if rng.chance(1, 40) {
            *rng.pick(&[usize::MAX, usize::MAX - 1, usize::MAX - seq.len().saturating_sub(1), usize::MAX - seq.len(), usize::MAX / 2 + 1, 1usize << 32])
        } else {
            width
        };
        let mut cuts: Vec<usize> = vec![];
        for _ in 0..rng.small(5) {
            let c = if rng.chance(1, 3) && width > 0 {
                // exactly at a line end
                width.saturating_mul(rng.range(0, 4)).min(seq.len())
            } else {
                rng.range(0, seq.len())
            };
            cuts.push(c);
            if rng.chance(1, 4) {
                cuts.push(c); // empty chunk
            }
        }
        if rng.chance(1, 8) && width > 0 && width < (1 << 40) && seq.len() / width < 200 {
            // a source that is already laid out at the requested width (or at width +- 1)
            let w = (width as i64 + *rng.pick(&[0i64, 0, 0, 1, -1])).max(1) as usize;
            cuts = (1..=seq.len() / w).map(|k| k * w).collect();
        }
        recs.push(WRec { head: gen_head(rng, 14, true), seq, cuts, entry: rng.below(C10_ENTRIES.len() as u64) as u8, width });
    }
    let sink_script = crate::monitors::sink_script(rng.next_u64());
    let total: usize = recs.iter().map(|r| r.head.len() + r.seq.len() + 4).sum();
    let input_like = vec![b'A'; total];
    C10Scn { recs, sink_script, read_cfg: gen_cfg(rng, &input_like, true) }
}

pub fn run_c10(s: &C10Scn, st: &mut Stats) -> RunResult {
    let mut v: Vec<Violation> = vec![];
    let mut all = vec![];
    let mut viol = |rule: &str, d: String| {
        if v.len() < 4 {
            v.push(Violation::new(rule, d));
        }
    };
    for (i, r) in s.recs.iter().enumerate() {
        let e = r.entry % C10_ENTRIES.len() as u8;
        st.count(&format!("op.{}", C10_ENTRIES[e as usize]), 1);
        if (s.sink_script.len() + i) % 3 == 0 {
            // (one record in three: the same record, or the previous one, into a sink that fails)
            let rr = if i > 0 && s.sink_script.len() % 2 == 0 { &s.recs[i - 1] } else { r };
            let ee = rr.entry % C10_ENTRIES.len() as u8;
            match failed_write_first(s.sink_script.iter().map(|x| *x as usize).sum::<usize>() % 7, st, &|w: &mut dyn std::io::Write| { let mut w = w; write_c10(rr, ee, &mut w) }) {
                FailedFirst::Failed => st.probe("probe.write_after_failed_write"),
                FailedFirst::Swallowed(d) => viol("C10.sink_error_swallowed", format!("record via {}: {}", C10_ENTRIES[ee as usize], d)),
                FailedFirst::NotFailed => {}
            }
        }
        let mut plain = SimSink::new(&[], None);
        let mut scripted = SimSink::new(&s.sink_script, None);
        let r1 = vcore::catch(|| write_c10(r, e, &mut plain));
        let r2 = vcore::catch(|| write_c10(r, e, &mut scripted));
        sink_stats(&scripted, st);
        match (&r1, &r2) {
            (Ok(Ok(())), Ok(Ok(()))) => {}
            other => {
                viol("C10.write_failed", format!("record {} via {}: {:?}", i, C10_ENTRIES[e as usize], other));
                continue;
            }
        }
        if plain.out != scripted.out {
            viol("C10.sink_dependent", format!("record {} via {}: bytes differ between a sink that accepts everything ({:?}) and one with short writes / Interrupted ({:?})", i, C10_ENTRIES[e as usize], show(&plain.out), show(&scripted.out)));
        }
        for (what, got) in other_sinks(&s.sink_script, st, &|w: &mut dyn std::io::Write| { let mut w = w; write_c10(r, e, &mut w) }) {
            match got {
                Ok(b) if b == plain.out => {}
                Ok(b) => viol("C10.sink_dependent", format!("record {} via {}: bytes differ between a sink that accepts everything ({:?}) and {} ({:?})", i, C10_ENTRIES[e as usize], show(&plain.out), what, show(&b))),
                Err(m) => viol("C10.write_failed", format!("record {} via {} into {}: {}", i, C10_ENTRIES[e as usize], what, m)),
            }
        }
        let out = &plain.out;
        // header line
        let mut want_head = vec![b'>'];
        want_head.extend_from_slice(&r.head);
        want_head.push(b'\n');
        if !out.starts_with(&want_head) {
            viol("C10.header", format!("record {} via {}: output {:?} does not start with the header line {:?}", i, C10_ENTRIES[e as usize], show(out), show(&want_head)));
            continue;
        }
        let body = &out[want_head.len()..];
        if entry_wrapped(e) {
            // wrapped shape: lines <= width, all but the last == width
            let w = r.width.max(1);
            if !body.is_empty() && body.last() != Some(&b'\n') {
                viol("C10.wrap_shape", format!("record {} via {}: output {:?} does not end with a line terminator", i, C10_ENTRIES[e as usize], show(out)));
            }
            let lines: Vec<&[u8]> = if body.is_empty() { vec![] } else { body[..body.len() - 1].split(|b| *b == b'\n').collect() };
            for (k, l) in lines.iter().enumerate() {
                if l.len() > w || (k + 1 < lines.len() && l.len() != w) {
                    viol("C10.wrap_shape", format!("record {} via {} width {}: sequence line {} of {} has length {} (sequence length {})", i, C10_ENTRIES[e as usize], w, k, lines.len(), l.len(), r.seq.len()));
                    break;
                }
            }
            st.probe("probe.wrapped_record");
            if !r.seq.is_empty() && r.seq.len() % w == 0 {
                st.probe("probe.seq_len_multiple_of_width");
            }
        }
        // whole vs chunked: identical bytes for a non-empty sequence
        if entry_chunked(e) && !r.seq.is_empty() {
            let whole_entry = if entry_wrapped(e) { 4 } else { 3 };
            let mut whole = SimSink::new(&[], None);
            let _ = write_c10(r, whole_entry, &mut whole);
            if whole.out != *out {
                viol("C10.chunking_dependent", format!("record {} width {} cuts {:?}: {} gives {:?} but the whole sequence gives {:?}", i, r.width, r.cuts, C10_ENTRIES[e as usize], show(out), show(&whole.out)));
            }
            st.probe("probe.chunked_vs_whole");
            if r.cuts.windows(2).any(|w| w[0] == w[1]) || r.cuts.contains(&0) || r.cuts.contains(&r.seq.len()) {
                st.probe("probe.empty_chunk");
            }
        }
        if r.seq.is_empty() {
            st.probe("probe.empty_sequence");
        }
        all.extend_from_slice(out);
    }
    drop(viol);
    // round trip through the real reader over the simulated source
    if v.is_empty() {
        let n = s.recs.len();
        let rs = ReadScn { fmt: Fmt::Fasta, input: all.clone(), cfgs: vec![s.read_cfg.clone()], ops: ops_next_to_end(n), mon: Monitors::default(), profile: String::new() };
        let log = drive(&rs, &s.read_cfg, &vec![]);
        let _ = record_stats(&rs, &s.read_cfg, &log, st);
        let got: Vec<&RecObs> = log.steps.iter().filter_map(|x| if let Out::Rec(r) = &x.out { Some(r) } else { None }).collect();
        let bad = log.steps.iter().find(|x| matches!(x.out, Out::Err(_, _) | Out::Panic(_) | Out::Hang(_)));
        if let Some(b) = bad {
            v.push(Violation::new("C10.roundtrip", format!("written text {:?} does not parse: {:?}", show(&all), b.out)));
        } else if got.len() != n {
            v.push(Violation::new("C10.roundtrip", format!("{} records written, {} parsed back from {:?}", n, got.len(), show(&all))));
        } else {
            for (i, (g, r)) in got.iter().zip(&s.recs).enumerate() {
                if g.head != r.head || g.seq != r.seq {
                    v.push(Violation::new("C10.roundtrip", format!("record {} via {}: wrote head {:?} seq {:?}, parsed head {:?} seq {:?}", i, C10_ENTRIES[(r.entry as usize) % C10_ENTRIES.len()], show(&r.head), show(&r.seq), show(&g.head), show(&g.seq))));
                    break;
                }
            }
        }
    }
    st.set_insert("nontrivial", hash_bytes(&all) ^ hash_bytes(&serde_json::to_vec(&s.sink_script).unwrap_or_default()));
    st.set_insert("states", hash_bytes(&s.recs.iter().map(|r| r.entry).collect::<Vec<u8>>()));
    RunResult { violations: v, log_hash: hash_bytes(&all) }
}

impl Check for C10 {
    fn id(&self) -> &str {
        "C10"
    }
    fn engine(&self) -> &str {
        "sim-io"
    }
    fn budget(&self, tier: Tier) -> u64 {
        crate::budget_for(self.id(), tier)
    }
    fn generate(&self, rng: &Rng, tier: Tier, _idx: u64) -> Value {
        serde_json::to_value(gen_c10(rng, tier)).unwrap()
    }
    fn run(&self, scn: &Value, st: &mut Stats) -> RunResult {
        match serde_json::from_value::<C10Scn>(scn.clone()) {
            Ok(s) if !s.recs.is_empty() => run_c10(&s, st),
            _ => bad_scn(),
        }
    }
    fn shrink(&self, scn: &Value) -> Vec<Value> {
        let s: C10Scn = match serde_json::from_value(scn.clone()) {
            Ok(s) => s,
            Err(_) => return vec![],
        };
        let mut out: Vec<C10Scn> = vec![];
        if s.recs.len() > 1 {
            for i in 0..s.recs.len() {
                let mut c = s.clone();
                c.recs.remove(i);
                out.push(c);
            }
        }
        for i in 0..s.recs.len() {
            let r = &s.recs[i];
            if !r.head.is_empty() {
                let mut c = s.clone();
                c.recs[i].head = vec![];
                out.push(c);
            }
            if r.seq.len() > 1 {
                let mut c = s.clone();
                c.recs[i].seq.truncate(r.seq.len() / 2);
                out.push(c);
                let mut c = s.clone();
                c.recs[i].seq.truncate(r.seq.len() - 1);
                out.push(c);
            }
            for k in 0..r.cuts.len() {
                let mut c = s.clone();
                c.recs[i].cuts.remove(k);
                out.push(c);
            }
            if r.width > 1 {
                let mut c = s.clone();
                c.recs[i].width = r.width - 1;
                out.push(c);
            }
            if r.seq.iter().any(|b| *b != b'A') {
                let mut c = s.clone();
                c.recs[i].seq = vec![b'A'; r.seq.len()];
                out.push(c);
            }
        }
        if !s.sink_script.is_empty() {
            let mut c = s.clone();
            c.sink_script = vec![];
            out.push(c);
        }
        if s.read_cfg != Cfg::plain(64) {
            let mut c = s.clone();
            c.read_cfg = Cfg::plain(64);
            out.push(c);
        }
        out.into_iter().map(|x| serde_json::to_value(x).unwrap()).collect()
    }
    fn rule_text(&self) -> String {
        "1..6 records (header without LF not ending in CR incl. non-UTF-8 bytes; sequence without LF/CR/'>' incl. empty; width 1, == length, a divisor of the length, random, or (1 in 40) at the far end of usize; 0..10 chunk boundaries incl. empty chunks and boundaries exactly at line ends), each written through one of 16 entry points (write_to, write_parts, write_wrap, write_head+write_seq / write_wrap_seq / write_seq_iter / write_wrap_seq_iter with exact-size and with filter() iterators, write_id_desc+..., OwnedRecord::write/write_wrap, RefRecord::write/write_wrap on records parsed from LF and from CRLF text) into four sinks: one that accepts everything, a SimSink with short writes and Interrupted, a SimSink with a gathering write_vectored that stops anywhere inside any slice, and a small BufWriter over a scripted SimSink; 1 in 120 sequences has a length at or next to a multiple of 64..65536. One record in three is first written into a sink that fails at its k-th call: if the write function nevertheless returns Ok(()), the sink must hold the complete record. Oracle: bytes independent of the sink; header line; wrapped shape; whole vs chunked identical for non-empty sequences; everything re-parsed through the real fasta::Reader over a SimSource with random capacity/chunking equals what was written. Weak fit: apart from the sink/source seams this is a pure function of (head, seq, width, chunking). distinct_nontrivial counts distinct (output bytes, sink script).".into()
    }
    fn assumptions(&self) -> Vec<String> {
        vec!["no schedule or crash in this property; the simulator contributes the sink seam and the re-read through the source seam".into()]
    }
    fn components(&self) -> Value {
        components()
    }
    fn expected_probes(&self) -> Vec<&'static str> {
        vec!["wrapped_record", "seq_len_multiple_of_width", "chunked_vs_whole", "empty_chunk", "empty_sequence"]
    }
}

// ===========================================================================
// C11
// ===========================================================================

pub struct C11;

#[derive(Serialize, Deserialize, Clone, Debug, PartialEq)]
pub struct QRec {
    #[serde(with = "esc")]
    pub head: Vec<u8>,
    #[serde(with = "esc")]
    pub seq: Vec<u8>,
    #[serde(with = "esc")]
    pub qual: Vec<u8>,
    pub entry: u8,
}

#[derive(Serialize, Deserialize, Clone, Debug, PartialEq)]
pub struct C11Scn {
    #[serde(default)]
    pub write: Option<(Vec<QRec>, Vec<u32>, Cfg)>,
    #[serde(default)]
    pub unchanged: Option<ReadScn>,
}

pub const C11_ENTRIES: &[&str] = &["write_to", "write_parts", "OwnedRecord::write", "RefRecord::write"];

fn write_c11<W: std::io::Write>(r: &QRec, e: u8, w: &mut W) -> std::io::Result<()> {
    use fastq::Record;
    let (id, desc) = split_id_desc(&r.head);
    match e {
        0 => fastq::write_to(&mut *w, &r.head, &r.seq, &r.qual),
        1 => fastq::write_parts(&mut *w, id, desc, &r.seq, &r.qual),
        2 => fastq::OwnedRecord { head: r.head.clone(), seq: r.seq.clone(), qual: r.qual.clone() }.write(&mut *w),
        _ => {
            let mut src = vec![b'@'];
            src.extend_from_slice(&r.head);
            src.push(b'\n');
            src.extend_from_slice(&r.seq);
            src.extend_from_slice(b"\n+\n");
            src.extend_from_slice(&r.qual);
            src.push(b'\n');
            let mut rd = fastq::Reader::new(&src[..]);
            let rec = rd.next().expect("source record").expect("valid source record");
            rec.write(&mut *w)
        }
    }
}

pub fn gen_c11(rng: &Rng, tier: Tier) -> C11Scn {
    let max_recs = match tier {
        Tier::Quick => 6,
        Tier::Thorough => 14,
    };
    if rng.chance(2, 5) {
        let n = 1 + rng.small(5);
        let mut recs = vec![];
        // now and then records of a few hundred bytes (fixed-size scratch buffers, size estimates)
        let big = rng.chance(1, 5);
        for _ in 0..n {
            let seq = if big { (0..rng.range(30, 150)).map(|_| *rng.pick(b"ACGTN")).collect() } else { gen_wseq(rng, 30) };
            let qual: Vec<u8> = seq.iter().map(|_| if rng.chance(1, 8) { *rng.pick(b"@+>") } else { *rng.pick(b"IJF#5!~") }).collect();
            let head = if big {
                let mut h = gen_head(rng, 14, true);
                h.push(b' ');
                h.extend((0..rng.range(0, 120)).map(|_| *rng.pick(b"abc xyz019")));
                while h.last() == Some(&b'\r') {
                    h.pop();
                }
                h
            } else {
                gen_head(rng, 14, true)
            };
            let mut head = head;
            if !head.is_empty() && rng.chance(1, 6) {
                // other white space than the blank inside the header (tab-separated tags are common):
                // only the first blank separates id and description
                let at = rng.below(head.len() as u64) as usize;
                if head[at] != b'\r' {
                    head[at] = *rng.pick(b"\t\t\t\x0c\x0b");
                }
            }
            recs.push(QRec { head, seq, qual, entry: if big { rng.below(2) as u8 * rng.below(2) as u8 + rng.below(2) as u8 } else { rng.below(4) as u8 } });
        }
        let total: usize = recs.iter().map(|r| r.head.len() + 2 * r.seq.len() + 6).sum();
        let cfg = gen_cfg(rng, &vec![b'A'; total], true);
        return C11Scn { write: Some((recs, crate::monitors::sink_script(rng.next_u64()), cfg)), unchanged: None };
    }
    let fmt = if rng.chance(1, 2) { Fmt::Fasta } else { Fmt::Fastq };
    let e = *rng.pick(&[Ending::Lf, Ending::Crlf]);
    let input = match fmt {
        Fmt::Fasta => {
            let a = gen_afasta(rng, max_recs, true);
            let blank = if rng.chance(1, 4) { 2 } else { 0 };
            let mut v = render_fasta(rng, &a, e, rng.chance(1, 2), rng.small(2), blank);
            if v.last() == Some(&b'\n') {
                for _ in 0..rng.small(3) {
                    v.extend_from_slice(if e == Ending::Crlf { b"\r\n" } else { b"\n" });
                }
            }
            v
        }
        Fmt::Fastq => {
            let a = gen_afastq(rng, max_recs, true);
            render_fastq(rng, &a, e, rng.chance(1, 2), rng.range(0, 2))
        }
    };
    let cfg = gen_cfg(rng, &input, true);
    let n = input.iter().filter(|b| **b == b'\n').count() + 2;
    let ops = if rng.chance(1, 3) { (0..n).map(|_| Op::ReadSet(0)).collect() } else { ops_next_to_end(n) };
    let mon = Monitors { views: false, iters: false, serde: false, unchanged: true, iter_seed: rng.next_u64() };
    C11Scn { write: None, unchanged: Some(ReadScn { fmt, input, cfgs: vec![cfg], ops, mon, profile: "well_formed".into() }) }
}

fn strip_blank_lines(b: &[u8]) -> Vec<u8> {
    let mut out = vec![];
    for l in b.split(|c| *c == b'\n') {
        if l.is_empty() || l == b"\r" {
            continue;
        }
        out.extend_from_slice(l);
        out.push(b'\n');
    }
    out
}

pub fn run_c11(s: &C11Scn, st: &mut Stats) -> RunResult {
    let mut v: Vec<Violation> = vec![];
    if let Some((recs, script, cfg)) = &s.write {
        let mut all = vec![];
        for (i, r) in recs.iter().enumerate() {
            let e = r.entry % 4;
            st.count(&format!("op.{}", C11_ENTRIES[e as usize]), 1);
            if (script.len() + i) % 3 == 0 {
                let rr = if i > 0 && script.len() % 2 == 0 { &recs[i - 1] } else { r };
                let ee = rr.entry % 4;
                match failed_write_first(script.iter().map(|x| *x as usize).sum::<usize>() % 7, st, &|w: &mut dyn std::io::Write| { let mut w = w; write_c11(rr, ee, &mut w) }) {
                    FailedFirst::Failed => st.probe("probe.write_after_failed_write"),
                    FailedFirst::Swallowed(d) => v.push(Violation::new("C11.sink_error_swallowed", format!("record via {}: {}", C11_ENTRIES[ee as usize], d))),
                    FailedFirst::NotFailed => {}
                }
            }
            let mut plain = SimSink::new(&[], None);
            let mut scripted = SimSink::new(script, None);
            let r1 = vcore::catch(|| write_c11(r, e, &mut plain));
            let r2 = vcore::catch(|| write_c11(r, e, &mut scripted));
            sink_stats(&scripted, st);
            if !matches!((&r1, &r2), (Ok(Ok(())), Ok(Ok(())))) {
                v.push(Violation::new("C11.write_failed", format!("record {} via {}: {:?} / {:?}", i, C11_ENTRIES[e as usize], r1, r2)));
                continue;
            }
            if plain.out != scripted.out {
                v.push(Violation::new("C11.sink_dependent", format!("record {} via {}: {:?} vs {:?}", i, C11_ENTRIES[e as usize], show(&plain.out), show(&scripted.out))));
            }
            for (what, got) in other_sinks(script, st, &|w: &mut dyn std::io::Write| { let mut w = w; write_c11(r, e, &mut w) }) {
                match got {
                    Ok(b) if b == plain.out => {}
                    Ok(b) => v.push(Violation::new("C11.sink_dependent", format!("record {} via {}: a sink that accepts everything got {:?}, {} got {:?}", i, C11_ENTRIES[e as usize], show(&plain.out), what, show(&b)))),
                    Err(m) => v.push(Violation::new("C11.write_failed", format!("record {} via {} into {}: {}", i, C11_ENTRIES[e as usize], what, m))),
                }
            }
            all.extend_from_slice(&plain.out);
        }
        if v.is_empty() {
            let n = recs.len();
            // (the id / description accessors of the records parsed back are part of "parses back to
            // exactly those fields": what write_parts got as id and description is the header split
            // at its first blank)
            let mon = Monitors { views: true, iters: false, serde: false, unchanged: false, iter_seed: 0 };
            let rs = ReadScn { fmt: Fmt::Fastq, input: all.clone(), cfgs: vec![cfg.clone()], ops: ops_next_to_end(n), mon, profile: String::new() };
            let log = drive(&rs, cfg, &vec![]);
            let _ = record_stats(&rs, cfg, &log, st);
            for step in &log.steps {
                for (rule, d) in &step.mon {
                    if (rule.starts_with("C13.id") || rule.starts_with("C13.desc")) && v.len() < 2 {
                        v.push(Violation::new("C11.header_parts", format!("a record parsed back from the written text: {}", d)));
                    }
                }
            }
            let got: Vec<&RecObs> = log.steps.iter().filter_map(|x| if let Out::Rec(r) = &x.out { Some(r) } else { None }).collect();
            let bad = log.steps.iter().find(|x| matches!(x.out, Out::Err(_, _) | Out::Panic(_) | Out::Hang(_)));
            if let Some(b) = bad {
                v.push(Violation::new("C11.roundtrip", format!("written text {:?} does not parse: {:?}", show(&all), b.out)));
            } else if got.len() != n {
                v.push(Violation::new("C11.roundtrip", format!("{} records written, {} parsed back from {:?}", n, got.len(), show(&all))));
            } else {
                for (i, (g, r)) in got.iter().zip(recs).enumerate() {
                    if g.head != r.head || g.seq != r.seq || g.qual != r.qual {
                        v.push(Violation::new("C11.roundtrip", format!("record {} via {}: wrote ({:?},{:?},{:?}), parsed ({:?},{:?},{:?})", i, C11_ENTRIES[(r.entry % 4) as usize], show(&r.head), show(&r.seq), show(&r.qual), show(&g.head), show(&g.seq), show(&g.qual))));
                        break;
                    }
                }
            }
        }
        st.set_insert("nontrivial", hash_bytes(&all) ^ hash_bytes(&serde_json::to_vec(script).unwrap_or_default()));
        return RunResult { violations: v, log_hash: hash_bytes(&all) };
    }
    let rs = match &s.unchanged {
        Some(r) if !r.cfgs.is_empty() => r,
        _ => return bad_scn(),
    };
    let cfg = &rs.cfgs[0];
    let log = drive(rs, cfg, &vec![]);
    if let Some(h) = record_stats(rs, cfg, &log, st) {
        st.set_insert("nontrivial", h);
    }
    for step in &log.steps {
        for (rule, d) in &step.mon {
            if rule.starts_with("C11.") && v.len() < 3 {
                v.push(Violation::new(rule, format!("{:?}: {}", step.op, d)));
            }
        }
        match &step.out {
            Out::Err(e, _) => v.push(Violation::new("C11.unchanged_input_rejected", format!("well-formed input rejected: {:?}", e))),
            Out::Panic(m) | Out::Hang(m) => v.push(Violation::new("C11.panic", m.clone())),
            _ => {}
        }
    }
    if v.is_empty() {
        match rs.fmt {
            Fmt::Fastq => {
                // input up to a final terminator being added and trailing blank lines dropped:
                // the first 4n lines with their own terminators
                let n_rec = log.steps.iter().map(|x| match &x.out { Out::Rec(_) => 1, Out::Set(v) => v.len(), _ => 0 }).sum::<usize>();
                let mut want = vec![];
                let mut nl = 0;
                for b in &rs.input {
                    if nl == 4 * n_rec {
                        break;
                    }
                    want.push(*b);
                    if *b == b'\n' {
                        nl += 1;
                    }
                }
                if nl < 4 * n_rec {
                    want.push(b'\n');
                }
                if n_rec != crate::model::build(Fmt::Fastq, &rs.input).n_recs_max() {
                    v.push(Violation::new("C11.unchanged_record_count", format!("{} records read from a well-formed input with {} records", n_rec, crate::model::build(Fmt::Fastq, &rs.input).n_recs_max())));
                }
                if log.unchanged != want {
                    v.push(Violation::new("C11.unchanged_bytes", format!("concatenated write_unchanged output {:?} != normalised input {:?}", show(&log.unchanged), show(&want))));
                }
            }
            Fmt::Fasta => {
                let lead = leading_blank_bytes(&rs.input);
                let mut want = rs.input[lead..].to_vec();
                if want.last() != Some(&b'\n') && !want.is_empty() {
                    want.push(b'\n');
                }
                if strip_blank_lines(&log.unchanged) != strip_blank_lines(&want) {
                    v.push(Violation::new("C11.fasta_unchanged_bytes", format!("concatenated write_unchanged output {:?} != input {:?} (blank lines and final terminator normalised)", show(&log.unchanged), show(&want))));
                }
            }
        }
    }
    if !v.is_empty() {
        let f = features(rs, cfg);
        for x in v.iter_mut() {
            x.features = f.clone();
        }
    }
    RunResult { violations: v, log_hash: log.log_hash }
}

impl Check for C11 {
    fn id(&self) -> &str {
        "C11"
    }
    fn engine(&self) -> &str {
        "sim-io"
    }
    fn budget(&self, tier: Tier) -> u64 {
        crate::budget_for(self.id(), tier)
    }
    fn generate(&self, rng: &Rng, tier: Tier, _idx: u64) -> Value {
        serde_json::to_value(gen_c11(rng, tier)).unwrap()
    }
    fn run(&self, scn: &Value, st: &mut Stats) -> RunResult {
        match serde_json::from_value::<C11Scn>(scn.clone()) {
            Ok(s) => run_c11(&s, st),
            _ => bad_scn(),
        }
    }
    fn shrink(&self, scn: &Value) -> Vec<Value> {
        let s: C11Scn = match serde_json::from_value(scn.clone()) {
            Ok(s) => s,
            Err(_) => return vec![],
        };
        let mut out: Vec<C11Scn> = vec![];
        if let Some(r) = &s.unchanged {
            for b in shrink_read(r) {
                let mut b = b;
                b.mon.unchanged = true;
                out.push(C11Scn { write: None, unchanged: Some(b) });
            }
        }
        if let Some((recs, script, cfg)) = &s.write {
            if recs.len() > 1 {
                for i in 0..recs.len() {
                    let mut r = recs.clone();
                    r.remove(i);
                    out.push(C11Scn { write: Some((r, script.clone(), cfg.clone())), unchanged: None });
                }
            }
            for i in 0..recs.len() {
                if !recs[i].head.is_empty() {
                    let mut r = recs.clone();
                    r[i].head = vec![];
                    out.push(C11Scn { write: Some((r, script.clone(), cfg.clone())), unchanged: None });
                }
                if recs[i].seq.len() > 0 {
                    let mut r = recs.clone();
                    let n = recs[i].seq.len() / 2;
                    r[i].seq.truncate(n);
                    r[i].qual.truncate(n);
                    out.push(C11Scn { write: Some((r, script.clone(), cfg.clone())), unchanged: None });
                }
            }
            if !script.is_empty() {
                out.push(C11Scn { write: Some((recs.clone(), vec![], cfg.clone())), unchanged: None });
            }
            if *cfg != Cfg::plain(64) {
                out.push(C11Scn { write: Some((recs.clone(), script.clone(), Cfg::plain(64))), unchanged: None });
            }
        }
        out.into_iter().map(|x| serde_json::to_value(x).unwrap()).collect()
    }
    fn rule_text(&self) -> String {
        "two scenario kinds. (a) 1..6 FASTQ records (header incl. non-UTF-8 bytes, equally long sequence/quality without LF/CR, quality bytes incl. '@' '+' '>') written through write_to / write_parts / OwnedRecord::write / RefRecord::write into four sinks (accept-all, short writes + Interrupted, gathering write_vectored with short writes, small BufWriter over a scripted sink; all must receive the same bytes; one record in three first goes into a sink that fails at its k-th call - a write function that then returns Ok(()) must have delivered the whole record), re-parsed through the real fastq::Reader over a SimSource with random capacity/chunking. (b) well-formed LF or CRLF inputs of both formats, with/without final terminator, trailing blank lines, read via next() or record sets at random capacity/chunking; every record handed out is written with write_unchanged into a SimSink; FASTQ: concatenation == input with a final terminator added and trailing blank lines dropped; FASTA: every output re-parses to the identical record and the concatenation equals the input up to blank lines and the final terminator. Non-trivial: refill/growth on the read side or short writes on the sink side; distinct by content hash.".into()
    }
    fn assumptions(&self) -> Vec<String> {
        vec!["weak-to-medium fit: the reader side is a stream surface (capacity x chunking decides where records sit in the buffer), the writer side only has the sink seam".into()]
    }
    fn components(&self) -> Value {
        components()
    }
    fn expected_probes(&self) -> Vec<&'static str> {
        vec!["refill", "growth"]
    }
}

// ===========================================================================
// C18 — steady state allocation
// ===========================================================================

pub struct C18;

#[derive(Serialize, Deserialize, Clone, Debug, PartialEq)]
pub struct C18Scn {
    pub fmt: Fmt,
    pub crlf: bool,
    pub head_len: usize,
    /// FASTA: number of sequence lines; FASTQ: ignored
    pub n_lines: usize,
    pub line_len: usize,
    pub cap: usize,
    pub script: Vec<u32>,
    /// false: next(); true: record sets (see `set_mode`)
    pub sets: bool,
    /// with `sets`: 0 = read_record_set() only, 1 = read_record_set_exact(1) only,
    /// k >= 2: (k-1) next() calls, then one read_record_set(), repeated
    #[serde(default)]
    pub set_mode: usize,
    /// every `small_every`-th record (if > 0) has `small_len` sequence characters per line instead
    /// of `line_len` ("records that are no larger" need not be equally large)
    #[serde(default)]
    pub small_every: usize,
    #[serde(default)]
    pub small_len: usize,
    /// if set: exactly one small record, at this record index (somewhere inside the window)
    #[serde(default)]
    pub small_at: Option<usize>,
    /// with `sets`: a second reader of this capacity on its own copy of the input; the two readers
    /// take turns filling the same record set (a pooled / reused set)
    #[serde(default)]
    pub second_cap: Option<usize>,
    /// with `sets` and set_mode 0: fill the set through `seq_io::parallel::Reader::fill_data` (what
    /// the parallel functions and ReusableReader call) instead of `read_record_set`
    #[serde(default)]
    pub via_fill_data: bool,
    /// FASTA: every `many_every`-th record (if > 0) has `many_lines` sequence lines of one character
    /// (records that are "no larger" in bytes, but with a much longer line index)
    #[serde(default)]
    pub many_every: usize,
    #[serde(default)]
    pub many_lines: usize,
    /// FASTQ: the sequence line ends in CRLF, the quality line in LF (terminators mixed inside a record)
    #[serde(default)]
    pub mixed_term: bool,
    pub warm: usize,
    pub window: usize,
    /// next() mode only: the input holds exactly warm-up + window records, so the window ends with
    /// the last record of the input and one more call that reports the end
    #[serde(default)]
    pub to_end: bool,
    /// with `to_end`: the last line of the input has no terminator
    #[serde(default)]
    pub no_final_term: bool,
}

fn c18_record(s: &C18Scn, i: usize) -> Vec<u8> {
    if (s.small_every > 0 && i % s.small_every == s.small_every - 1) || s.small_at == Some(i) {
        let mut z = s.clone();
        z.small_every = 0;
        z.small_at = None;
        z.line_len = s.small_len;
        return c18_record(&z, i);
    }
    if s.many_every > 0 && s.fmt == Fmt::Fasta && i % s.many_every == s.many_every - 1 {
        let mut z = s.clone();
        z.many_every = 0;
        z.n_lines = s.many_lines;
        z.line_len = 1;
        return c18_record(&z, i);
    }
    let t: &[u8] = if s.crlf { b"\r\n" } else { b"\n" };
    let mut v = vec![];
    let id = format!("{:0width$}", i % 10usize.pow(s.head_len.min(9) as u32).max(1), width = s.head_len.max(1));
    match s.fmt {
        Fmt::Fasta => {
            v.push(b'>');
            v.extend_from_slice(id.as_bytes());
            v.extend_from_slice(t);
            for _ in 0..s.n_lines {
                v.extend(std::iter::repeat(b"ACGT"[i % 4]).take(s.line_len));
                v.extend_from_slice(t);
            }
        }
        Fmt::Fastq => {
            v.push(b'@');
            v.extend_from_slice(id.as_bytes());
            v.extend_from_slice(t);
            v.extend(std::iter::repeat(b"ACGT"[i % 4]).take(s.line_len));
            v.extend_from_slice(if s.mixed_term { b"\r\n" } else { t });
            v.push(b'+');
            v.extend_from_slice(t);
            v.extend(std::iter::repeat(b'I').take(s.line_len));
            v.extend_from_slice(if s.mixed_term { b"\n" } else { t });
        }
    }
    v
}

pub fn gen_c18(rng: &Rng, tier: Tier) -> C18Scn {
    let fmt = if rng.chance(1, 2) { Fmt::Fasta } else { Fmt::Fastq };
    let mut s = C18Scn {
        fmt,
        crlf: rng.chance(1, 3),
        head_len: rng.range(1, 8),
        n_lines: rng.range(0, 5),
        line_len: rng.range(0, 40),
        cap: 0,
        script: gen_script(rng, true),
        sets: rng.chance(1, 2),
        set_mode: match rng.below(4) {
            0 | 1 => 0,
            2 => 1,
            _ => rng.range(2, 5),
        },
        small_every: 0,
        small_len: 0,
        small_at: None,
        second_cap: None,
        via_fill_data: false,
        many_every: 0,
        many_lines: 0,
        mixed_term: false,
        warm: rng.range(4, 40),
        window: match tier {
            Tier::Quick => rng.range(50, 400),
            Tier::Thorough => rng.range(200, 5000),
        },
        to_end: false,
        no_final_term: false,
    };
    let rl = c18_record(&s, 0).len();
    if rng.chance(1, 4) {
        // mixed sizes: mostly records that nearly fill the buffer, now and then a tiny one
        s.n_lines = s.n_lines.max(1);
        // (capacities of several hundred bytes now and then: fractions of the capacity such as
        // cap/64 only become non-zero there)
        s.line_len = if rng.chance(1, 3) { rng.range(150, 900) } else { rng.range(20, 120) };
        s.small_len = rng.range(0, 2);
        if rng.chance(1, 2) {
            s.small_every = rng.range(2, 7);
        } else {
            // a single tiny record, first met well inside the measured window
            s.head_len = rng.range(1, 3);
            s.sets = s.sets && s.set_mode == 0;
            s.small_at = Some(s.warm + 8 + rng.range(0, s.window.saturating_sub(12).max(1)));
        }
        let big = c18_record(&s, 0).len();
        // (down to the exact fit: a FASTQ record of exactly `cap` bytes fits, a FASTA record needs
        // one byte of look-ahead)
        s.cap = big + rng.range(if fmt == Fmt::Fastq { 0 } else { 1 }, 6);
        s.warm = s.warm.max(4 * s.small_every + 6);
        return s;
    }
    if fmt == Fmt::Fasta && rng.chance(1, 700) {
        // records with thousands of (short) lines: the per-record line index is long
        s.n_lines = *rng.pick(&[rng.range(1000, 1100), rng.range(4090, 4200), rng.range(4097, 5200)]);
        s.line_len = rng.range(0, 2);
        s.window = rng.range(12, 40);
        s.warm = rng.range(4, 8);
        s.script = if rng.chance(1, 2) { vec![] } else { vec![rng.range(300, 5000) as u32] };
        let rl = c18_record(&s, 0).len();
        s.cap = if rng.chance(1, 2) { 65536.max(rl + 10) } else { rl * rng.range(1, 3) + rng.range(2, rl) };
        return s;
    }
    if fmt == Fmt::Fasta && rng.chance(1, 300) {
        // long runs of records with few lines, and every 65th..100th one with more than a thousand
        // lines (idle counters, hysteresis on the size of the line index); the warm-up spans two
        // cycles, the window at least two more
        s.n_lines = rng.range(0, 3);
        s.line_len = rng.range(1, 30);
        s.many_every = rng.range(65, 100);
        s.many_lines = *rng.pick(&[rng.range(1025, 1100), rng.range(1100, 2100)]);
        s.head_len = rng.range(1, 4);
        s.warm = 2 * s.many_every + rng.range(1, 10);
        s.window = 2 * s.many_every + rng.range(5, 80);
        s.script = if rng.chance(1, 2) { vec![] } else { vec![rng.range(300, 5000) as u32] };
        s.sets = rng.chance(1, 2);
        s.set_mode = 1;
        let big = c18_record(&s, s.many_every - 1).len();
        s.cap = if rng.chance(1, 2) { 65536.max(big + 10) } else { 2 * big + rng.range(2, big) };
        return s;
    }
    // capacity >= 2 records so that growth is never needed after the first fill
    let per_buf = rng.range(2, 6);
    s.cap = (rl * per_buf + rng.range(1, rl)).max(3);
    // "a few records": the warm-up spans at least two refills of the buffer
    if !s.sets || s.set_mode == 1 {
        s.warm = s.warm.max(2 * per_buf + 3);
    }
    if fmt == Fmt::Fastq && rng.chance(1, 8) {
        s.mixed_term = true;
    }
    if !s.sets && rng.chance(1, 3) {
        // the steady state lasts to the end of the input: the last record (with or without a final
        // terminator) and the call that reports the end are inside the window
        s.to_end = true;
        s.no_final_term = rng.chance(1, 2);
    }
    if s.sets && s.set_mode == 0 && rng.chance(1, 6) {
        s.via_fill_data = true;
    }
    if s.sets && s.set_mode < 2 && rng.chance(1, 6) {
        s.second_cap = Some(s.cap * rng.range(2, 12) + rng.range(0, 7));
        s.warm = 2 * s.warm + 4;
        s.window = s.window.min(80);
    }
    s
}

/// `fill_data` of `seq_io::parallel::Reader` (implemented for both readers, with the built-in
/// policy: the trait wants a `Send` policy, which the recording one is not): the entry point through
/// which the parallel functions and `ReusableReader` refill their recycled record sets.
fn c18_fill_data_window(s: &C18Scn, input: Rc<Vec<u8>>, cfg: &Cfg) -> Result<(u64, usize), String> {
    let seam = new_seam(0);
    let src = SimSource::new(input, cfg, seam);
    macro_rules! go {
        ($module:ident) => {{
            use seq_io::parallel::Reader as ParReader;
            let mut rd = $module::Reader::with_capacity(src, s.cap);
            let mut set = $module::RecordSet::default();
            let mut max_batch = 0;
            let mut sum = 0usize;
            let mut step = |rd: &mut $module::Reader<SimSource>, set: &mut $module::RecordSet| -> usize {
                rd.fill_data(set).expect("enough input").expect("valid input");
                for r in &*set {
                    use $module::Record;
                    sum += r.head().len();
                }
                set.len()
            };
            for _ in 0..s.warm.max(6) {
                max_batch = max_batch.max(step(&mut rd, &mut set));
            }
            alloc::arm();
            let mut done = 0;
            while done < s.window {
                let k = step(&mut rd, &mut set);
                if k > max_batch {
                    max_batch = k;
                    alloc::disarm();
                    alloc::arm();
                }
                done += 1;
            }
            let n = alloc::disarm();
            (n, done)
        }};
    }
    let r = vcore::catch(|| match s.fmt {
        Fmt::Fasta => go!(fasta),
        Fmt::Fastq => go!(fastq),
    });
    alloc::disarm();
    r
}

pub fn run_c18(s: &C18Scn, st: &mut Stats) -> RunResult {
    let mut v: Vec<Violation> = vec![];
    let min_rec = (0..s.small_every.max(1)).map(|i| c18_record(s, i).len()).min().unwrap_or(1).max(1);
    let per_call = if s.sets && s.set_mode != 1 { (s.cap.max(s.second_cap.unwrap_or(0)) / min_rec).max(1) + 1 } else { 1 };
    let n_records = (s.warm.max(3 * s.set_mode) + s.window + 4) * per_call + 8;
    let to_end = s.to_end && !s.sets;
    let n_records = if to_end { s.warm.max(3 * s.set_mode) + s.window } else { n_records };
    let mut input = Vec::with_capacity(n_records * c18_record(s, 0).len());
    for i in 0..n_records {
        input.extend_from_slice(&c18_record(s, i));
    }
    if to_end && s.no_final_term {
        if input.last() == Some(&b'\n') {
            input.pop();
        }
        if input.last() == Some(&b'\r') {
            input.pop();
        }
        st.probe("probe.window_ends_with_unterminated_last_record");
    } else if to_end {
        st.probe("probe.window_ends_with_the_input");
    }
    let cfg = Cfg { cap: s.cap, policy: PolicySpec::Std, script: s.script.clone(), cuts: vec![], faults: vec![], intr_burst: None, lift: None, pause: None };
    if s.via_fill_data && s.sets && s.set_mode == 0 {
        st.probe("probe.set_filled_through_parallel_fill_data");
        match c18_fill_data_window(s, Rc::new(input), &cfg) {
            Err(m) => v.push(Violation::new("C18.harness_or_panic", format!("fill_data scenario did not run to the end of the window: {}", m))),
            Ok((allocs, calls)) => {
                st.count("step.window_calls_measured", calls as u64);
                if allocs != 0 {
                    v.push(Violation::new("C18.allocation_in_steady_state", format!("{} heap allocation(s) during {} steady-state parallel::Reader::fill_data calls into one reused record set after a warm-up of {} (records of {} bytes, capacity {})", allocs, calls, s.warm.max(6), c18_record(s, 0).len(), s.cap)));
                }
            }
        }
        let h = hash_bytes(&serde_json::to_vec(s).unwrap_or_default());
        st.set_insert("nontrivial", h);
        st.count("op.mode.fill_data", 1);
        return RunResult { violations: v, log_hash: h };
    }
    let seam = new_seam(0);
    let input = Rc::new(input);
    let src = SimSource::new(input.clone(), &cfg, seam.clone());
    let pol = SimPolicy::new(PolicySpec::Std, seam.clone());
    let mut src2 = match s.second_cap {
        Some(c2) if s.sets && s.set_mode < 2 && c2 >= 3 => {
            st.probe("probe.two_readers_share_one_record_set");
            Some((SimSource::new(input.clone(), &cfg, seam.clone()), SimPolicy::new(PolicySpec::Std, seam.clone()), c2))
        }
        _ => None,
    };
    let mut sum = 0usize;
    // (allocations in window, grow_to calls in window, calls measured, window restarts)
    let measured: Result<(u64, usize, usize, usize), String> = vcore::catch(|| {
        let mut restarts = 0;
        match s.fmt {
            Fmt::Fasta => {
                use fasta::Record;
                let mut rd = fasta::Reader::with_capacity(src, s.cap).set_policy(pol);
                let mut rd2 = src2.take().map(|(src2, pol2, cap2)| fasta::Reader::with_capacity(src2, cap2).set_policy(pol2));
                let mut set = fasta::RecordSet::default();
                let mut max_batch = 0;
                let mut calls = 0usize;
                let mut step = |rd: &mut fasta::Reader<SimSource, SimPolicy>, set: &mut fasta::RecordSet, sum: &mut usize| -> usize {
                    calls += 1;
                    let use_set = s.sets && (s.set_mode < 2 || calls % s.set_mode == 0);
                    let rd = match rd2.as_mut() {
                        Some(r2) if use_set && calls % 2 == 0 => r2,
                        _ => rd,
                    };
                    if use_set {
                        if s.set_mode == 1 {
                            rd.read_record_set_exact(set, Some(1)).expect("enough input").expect("valid input");
                        } else {
                            rd.read_record_set(set).expect("enough input").expect("valid input");
                        }
                        for r in &*set {
                            *sum += r.head().len();
                            for l in r.seq_lines() {
                                *sum += l.len();
                            }
                        }
                        set.len()
                    } else {
                        let r = rd.next().expect("enough input").expect("valid input");
                        *sum += r.head().len();
                        for l in r.seq_lines() {
                            *sum += l.len();
                        }
                        1
                    }
                };
                // the warm-up covers at least three complete cycles of the call pattern
                for _ in 0..s.warm.max(3 * s.set_mode) {
                    max_batch = max_batch.max(step(&mut rd, &mut set, &mut sum));
                }
                let g0 = seam.borrow().all_grows.len();
                alloc::arm();
                let mut done = 0;
                while done < s.window {
                    let k = step(&mut rd, &mut set, &mut sum);
                    if k > max_batch {
                        // a batch larger than anything seen in warm-up may legitimately grow the
                        // offset vectors: count it as warm-up and start the window again
                        max_batch = k;
                        alloc::disarm();
                        restarts += 1;
                        alloc::arm();
                    }
                    done += 1;
                }
                if to_end {
                    // the call that reports the end of the input
                    let _ = rd.next().is_none();
                }
                let n = alloc::disarm();
                let g1 = seam.borrow().all_grows.len();
                (n, g1 - g0, done, restarts)
            }
            Fmt::Fastq => {
                use fastq::Record;
                let mut rd = fastq::Reader::with_capacity(src, s.cap).set_policy(pol);
                let mut rd2 = src2.take().map(|(src2, pol2, cap2)| fastq::Reader::with_capacity(src2, cap2).set_policy(pol2));
                let mut set = fastq::RecordSet::default();
                let mut max_batch = 0;
                let mut calls = 0usize;
                let mut step = |rd: &mut fastq::Reader<SimSource, SimPolicy>, set: &mut fastq::RecordSet, sum: &mut usize| -> usize {
                    calls += 1;
                    let use_set = s.sets && (s.set_mode < 2 || calls % s.set_mode == 0);
                    let rd = match rd2.as_mut() {
                        Some(r2) if use_set && calls % 2 == 0 => r2,
                        _ => rd,
                    };
                    if use_set {
                        if s.set_mode == 1 {
                            rd.read_record_set_exact(set, Some(1)).expect("enough input").expect("valid input");
                        } else {
                            rd.read_record_set(set).expect("enough input").expect("valid input");
                        }
                        for r in &*set {
                            *sum += r.head().len() + r.seq().len() + r.qual().len();
                        }
                        set.len()
                    } else {
                        let r = rd.next().expect("enough input").expect("valid input");
                        *sum += r.head().len() + r.seq().len() + r.qual().len();
                        1
                    }
                };
                // the warm-up covers at least three complete cycles of the call pattern
                for _ in 0..s.warm.max(3 * s.set_mode) {
                    max_batch = max_batch.max(step(&mut rd, &mut set, &mut sum));
                }
                let g0 = seam.borrow().all_grows.len();
                alloc::arm();
                let mut done = 0;
                while done < s.window {
                    let k = step(&mut rd, &mut set, &mut sum);
                    if k > max_batch {
                        max_batch = k;
                        alloc::disarm();
                        restarts += 1;
                        alloc::arm();
                    }
                    done += 1;
                }
                if to_end {
                    // the call that reports the end of the input
                    let _ = rd.next().is_none();
                }
                let n = alloc::disarm();
                let g1 = seam.borrow().all_grows.len();
                (n, g1 - g0, done, restarts)
            }
        }
    });
    alloc::disarm();
    let lg = seam.borrow();
    st.count("step.source_reads", lg.total_reads);
    st.count("fault.interrupted_read", lg.total_interrupts);
    st.count("fault.short_read", lg.short_reads);
    match measured {
        Err(m) => v.push(Violation::new("C18.harness_or_panic", format!("scenario did not run to the end of the window: {}", m))),
        Ok((allocs, grows, calls, restarts)) => {
            st.count("step.window_calls_measured", calls as u64);
            st.count("step.window_restarts_larger_batch", restarts as u64);
            if lg.total_reads > 2 {
                st.probe("probe.refill");
            }
            if allocs != 0 {
                v.push(Violation::new("C18.allocation_in_steady_state", format!("{} heap allocation(s) during {} steady-state {} calls after a warm-up of {} (records of {} bytes, capacity {})", allocs, calls, if !s.sets { "next".to_string() } else if s.set_mode == 0 { "read_record_set".to_string() } else if s.set_mode == 1 { "read_record_set_exact(1)".to_string() } else { format!("{}x next + read_record_set", s.set_mode - 1) }, s.warm, c18_record(s, 0).len(), s.cap)));
            }
            if grows != 0 {
                v.push(Violation::new("C18.growth_in_steady_state", format!("grow_to was called {} time(s) in the steady-state window (capacity {}, record length {})", grows, s.cap, c18_record(s, 0).len())));
            }
        }
    }
    let h = hash_bytes(&serde_json::to_vec(s).unwrap_or_default());
    st.set_insert("nontrivial", h);
    st.set_insert("states", vcore::mix(s.sets as u64 + 2 * s.set_mode.min(3) as u64, (s.fmt == Fmt::Fasta) as u64 * 2 + s.crlf as u64 * 4 + (s.n_lines.min(3) as u64) * 8));
    st.count(&format!("op.mode.{}", if !s.sets { "next" } else if s.set_mode == 0 { "record_set" } else if s.set_mode == 1 { "record_set_exact_1" } else { "next_and_record_set_alternating" }), 1);
    let _ = sum;
    for x in v.iter_mut() {
        x.features.insert(format!("fmt:{}", if s.fmt == Fmt::Fasta { "fasta" } else { "fastq" }));
        x.features.insert(format!("mode:{}", if s.sets { format!("sets{}", s.set_mode) } else { "next".to_string() }));
    }
    RunResult { violations: v, log_hash: vcore::mix(lg.hash, h) }
}

impl Check for C18 {
    fn id(&self) -> &str {
        "C18"
    }
    fn engine(&self) -> &str {
        "sim-io"
    }
    fn budget(&self, tier: Tier) -> u64 {
        crate::budget_for(self.id(), tier)
    }
    fn generate(&self, rng: &Rng, tier: Tier, _idx: u64) -> Value {
        serde_json::to_value(gen_c18(rng, tier)).unwrap()
    }
    fn run(&self, scn: &Value, st: &mut Stats) -> RunResult {
        match serde_json::from_value::<C18Scn>(scn.clone()) {
            Ok(s) if s.cap >= 3 => run_c18(&s, st),
            _ => bad_scn(),
        }
    }
    fn shrink(&self, scn: &Value) -> Vec<Value> {
        let s: C18Scn = match serde_json::from_value(scn.clone()) {
            Ok(s) => s,
            Err(_) => return vec![],
        };
        let mut out = vec![];
        let mut push = |c: C18Scn| out.push(serde_json::to_value(c).unwrap());
        if s.window > 10 {
            let mut c = s.clone();
            c.window = s.window / 2;
            push(c);
        }
        if !s.script.is_empty() {
            let mut c = s.clone();
            c.script = vec![];
            push(c);
        }
        if s.crlf {
            let mut c = s.clone();
            c.crlf = false;
            push(c);
        }
        if s.n_lines > 1 {
            let mut c = s.clone();
            c.n_lines = 1;
            push(c);
        }
        if s.line_len > 4 {
            let mut c = s.clone();
            c.line_len = 4;
            c.cap = (c18_record(&c, 0).len() * 3 + 1).max(3);
            push(c);
        }
        // (the warm-up is never shortened: a too short warm-up would change the cause of the report)
        out
    }
    fn rule_text(&self) -> String {
        "uniform records (same byte length, line count and id width; LF or CRLF; FASTA 0..5 lines, FASTQ), capacity of 2..6 records plus a remainder, chunk script with short reads and Interrupted, warm-up of 4..40 calls, then a measured window of 50..5000 calls of one of four kinds - next(); read_record_set() into one reused set; read_record_set_exact(1); (k-1) next() calls alternating with one read_record_set() - iterating every record handed out; variants: mixed sizes (records that nearly fill, or exactly fill, a buffer of up to ~2 KiB with tiny ones in between), FASTA records of 1000..5200 lines, and two readers of very different capacity taking turns on one record set. A counting #[global_allocator] (thread-local, armed only around the window) must count 0 allocations/reallocations and the recording policy 0 grow_to calls. A window batch holding more records than any warm-up batch restarts the window (a larger batch may legitimately grow the set's offset vectors). distinct_nontrivial = distinct scenario parameter tuples.".into()
    }
    fn assumptions(&self) -> Vec<String> {
        vec![
            "the simulator's own seams do not allocate inside the window (script is materialised, log vectors are only pushed on faults/growth)".into(),
            "deterministic: same scenario => same allocation count; nothing samples a live process".into(),
        ]
    }
    fn components(&self) -> Value {
        components()
    }
    fn expected_probes(&self) -> Vec<&'static str> {
        vec!["refill"]
    }
}
