//! Scenario data types. A scenario is explicit data: the executor takes only
//! this (never a seed), so a scenario file is a complete replay and the
//! minimiser can edit every part.

use serde_derive::{Deserialize, Serialize};
use std::io::ErrorKind;

/// bytes <-> JSON string with escapes (printable ASCII literal, \n \r \t \\ and \xNN)
pub mod esc {
    use serde::{Deserialize, Deserializer, Serializer};

    pub fn to_string(b: &[u8]) -> String {
        let mut s = String::with_capacity(b.len() + 8);
        for &c in b {
            match c {
                b'\n' => s.push_str("\\n"),
                b'\r' => s.push_str("\\r"),
                b'\t' => s.push_str("\\t"),
                b'\\' => s.push_str("\\\\"),
                0x20..=0x7e => s.push(c as char),
                _ => s.push_str(&format!("\\x{:02x}", c)),
            }
        }
        s
    }

    pub fn from_str(s: &str) -> Result<Vec<u8>, String> {
        let b = s.as_bytes();
        let mut out = Vec::with_capacity(b.len());
        let mut i = 0;
        while i < b.len() {
            if b[i] == b'\\' {
                i += 1;
                match b.get(i) {
                    Some(b'n') => out.push(b'\n'),
                    Some(b'r') => out.push(b'\r'),
                    Some(b't') => out.push(b'\t'),
                    Some(b'\\') => out.push(b'\\'),
                    Some(b'x') => {
                        let h = std::str::from_utf8(b.get(i + 1..i + 3).ok_or("short \\x")?)
                            .map_err(|e| e.to_string())?;
                        out.push(u8::from_str_radix(h, 16).map_err(|e| e.to_string())?);
                        i += 2;
                    }
                    other => return Err(format!("bad escape {:?}", other)),
                }
                i += 1;
            } else {
                out.push(b[i]);
                i += 1;
            }
        }
        Ok(out)
    }

    pub fn serialize<S: Serializer>(b: &Vec<u8>, s: S) -> Result<S::Ok, S::Error> {
        s.serialize_str(&to_string(b))
    }

    pub fn deserialize<'de, D: Deserializer<'de>>(d: D) -> Result<Vec<u8>, D::Error> {
        let s = String::deserialize(d)?;
        from_str(&s).map_err(serde::de::Error::custom)
    }
}

pub fn show(b: &[u8]) -> String {
    esc::to_string(b)
}

#[derive(Serialize, Deserialize, Clone, Copy, Debug, PartialEq, Eq, Hash)]
pub enum Fmt {
    #[serde(rename = "fasta")]
    Fasta,
    #[serde(rename = "fastq")]
    Fastq,
}

#[derive(Serialize, Deserialize, Clone, Debug, PartialEq)]
pub enum PolicySpec {
    /// seq_io::policy::StdPolicy (real)
    Std,
    /// seq_io::policy::DoubleUntil(k) (real)
    DoubleUntil(usize),
    /// seq_io::policy::DoubleUntilLimited::new(k, l) (real)
    DoubleUntilLimited(usize, usize),
    /// current + k
    Add(usize),
    /// current * k
    Mul(usize),
    /// max(current + 1, k): one jump to a large size
    JumpTo(usize),
    /// always None
    Refuse,
    /// doubles, but refuses after `n` grants
    RefuseAfter(usize),
    /// doubles, refuses a result above the limit
    DoubleLimit(usize),
    /// answers Some(current) (no growth granted yet) k times, then doubles
    Stall(usize),
    /// refuses its first k requests, then doubles (a budget that is raised, a limit that is
    /// lifted by somebody else): the reader has to get over repeated refusals without losing its place
    RefuseFirst(usize),
}

impl PolicySpec {
    pub fn can_refuse(&self) -> bool {
        matches!(
            self,
            PolicySpec::Refuse
                | PolicySpec::RefuseAfter(_)
                | PolicySpec::DoubleLimit(_)
                | PolicySpec::DoubleUntilLimited(_, _)
                | PolicySpec::RefuseFirst(_)
        )
    }
}

#[derive(Serialize, Deserialize, Clone, Debug, PartialEq)]
pub struct Fault {
    /// index of the source call (reads and seeks counted together, from 0)
    pub call: usize,
    pub kind: String,
    /// how the io::Error is built: "" = from the kind alone; "msg" = custom string payload;
    /// "nested:<Kind>" = payload is another io::Error of that kind; "seqio" = payload is one of
    /// seq_io's own error values (what a Read adaptor layered on a seq_io reader produces)
    #[serde(default)]
    pub payload: String,
}

pub const FAULT_KINDS: &[&str] = &[
    "Other",
    "UnexpectedEof",
    "BrokenPipe",
    "TimedOut",
    "WouldBlock",
    "PermissionDenied",
    "InvalidData",
    "ConnectionReset",
];

pub fn kind_from_name(s: &str) -> ErrorKind {
    match s {
        "UnexpectedEof" => ErrorKind::UnexpectedEof,
        "BrokenPipe" => ErrorKind::BrokenPipe,
        "TimedOut" => ErrorKind::TimedOut,
        "WouldBlock" => ErrorKind::WouldBlock,
        "PermissionDenied" => ErrorKind::PermissionDenied,
        "InvalidData" => ErrorKind::InvalidData,
        "ConnectionReset" => ErrorKind::ConnectionReset,
        "Interrupted" => ErrorKind::Interrupted,
        "WriteZero" => ErrorKind::WriteZero,
        _ => ErrorKind::Other,
    }
}

pub fn kind_name(k: ErrorKind) -> String {
    format!("{:?}", k)
}

/// label of an I/O error as the seam injects it and as the reader hands it back: the kind, plus
/// the raw OS error code if the error carries one (C14: "unchanged" includes the code)
pub fn io_label(e: &std::io::Error) -> String {
    match e.raw_os_error() {
        Some(c) => format!("{:?}#os{}", e.kind(), c),
        None => format!("{:?}", e.kind()),
    }
}

/// One reader configuration: capacity, growth policy and how the source
/// splits its data over read calls.
#[derive(Serialize, Deserialize, Clone, Debug, PartialEq)]
pub struct Cfg {
    pub cap: usize,
    pub policy: PolicySpec,
    /// cyclic list of read decisions: k > 0 = deliver at most k bytes, 0 = return
    /// ErrorKind::Interrupted. Empty = deliver everything that fits.
    #[serde(default)]
    pub script: Vec<u32>,
    /// absolute input offsets at which a read must stop
    #[serde(default)]
    pub cuts: Vec<usize>,
    #[serde(default)]
    pub faults: Vec<Fault>,
    /// (source call index, length): that many consecutive reads starting there return Interrupted
    #[serde(default)]
    pub intr_burst: Option<(usize, usize)>,
    /// the caller's reaction to a size-limit refusal: on the first `BufferLimit` returned by a read
    /// operation install this policy (`set_policy`) and repeat the operation once (C03 only)
    #[serde(default)]
    pub lift: Option<PolicySpec>,
    /// a growing input: the read call with this index returns Ok(0) once although more data
    /// follow (`Read` allows that); later calls deliver the rest (C20 only: the end, once
    /// reported, stays reported)
    #[serde(default)]
    pub pause: Option<usize>,
}

impl Cfg {
    pub fn plain(cap: usize) -> Cfg {
        Cfg {
            cap,
            policy: PolicySpec::Std,
            script: vec![],
            cuts: vec![],
            faults: vec![],
            intr_burst: None,
            lift: None, pause: None,
        }
    }
}

#[derive(Serialize, Deserialize, Clone, Debug, PartialEq)]
pub enum Op {
    Next,
    /// one step of `reader.records()`
    OwnedNext,
    ReadSet(usize),
    ReadSetExact(usize, usize),
    /// seek to the model position of item j (record, or the invalid FASTQ group)
    SeekRec(usize),
    /// seek to the k-th distinct position the reader itself reported so far (no model involved)
    SeekSeen(usize),
    /// re-iterate a record-set slot
    IterSet(usize),
    SetPolicy(PolicySpec),
    /// final: `into_records()` and drain until None was seen twice (bounded)
    Drain,
    /// drop the reader and open a fresh one (same capacity / policy / chunk script) on the part of
    /// the input that starts at model item j, keeping the record sets: a RecordSet may be reused
    /// across readers
    Restart(usize),
    /// RecordSet::shrink_buffer_to_fit() on a slot (contents must stay the same)
    ShrinkSet(usize),
}

#[derive(Serialize, Deserialize, Clone, Debug, PartialEq, Default)]
pub struct Monitors {
    /// C13 accessor relations on every record handed out
    #[serde(default)]
    pub views: bool,
    /// C20 iterator-contract histories on every record / set handed out (seeded by `iter_seed`)
    #[serde(default)]
    pub iters: bool,
    /// C19 serde round trip on owned records / filled sets
    #[serde(default)]
    pub serde: bool,
    /// C11 write_unchanged concatenation
    #[serde(default)]
    pub unchanged: bool,
    #[serde(default)]
    pub iter_seed: u64,
}

#[derive(Serialize, Deserialize, Clone, Debug, PartialEq)]
pub struct ReadScn {
    pub fmt: Fmt,
    #[serde(with = "esc")]
    pub input: Vec<u8>,
    pub cfgs: Vec<Cfg>,
    pub ops: Vec<Op>,
    #[serde(default)]
    pub mon: Monitors,
    #[serde(default)]
    pub profile: String,
}

pub const N_SLOTS: usize = 3;
