//! Reference models (DESIGN.md section 4). Deliberately dumb: they see the whole
//! input at once, split it at '\n', never buffer, and share no code with
//! seq_io. The model of an input is a list of *items*; each item is a set of
//! accepted outcomes (one element except for the wording the properties leave
//! open, section 4.3).

use crate::scn::Fmt;

#[derive(Clone, Debug, PartialEq, Eq, Hash)]
pub struct RecObs {
    pub head: Vec<u8>,
    /// FASTA: sequence lines; FASTQ: empty
    pub lines: Vec<Vec<u8>>,
    /// FASTA: concatenation of the lines; FASTQ: sequence
    pub seq: Vec<u8>,
    /// FASTQ only
    pub qual: Vec<u8>,
}

#[derive(Clone, Debug, PartialEq, Eq)]
pub enum ErrObs {
    Io(String),
    BufferLimit,
    InvalidStart {
        line: u64,
        found: u8,
        id: Option<String>,
    },
    InvalidSep {
        line: u64,
        found: u8,
        id: Option<String>,
    },
    UnequalLengths {
        line: u64,
        seq: usize,
        qual: usize,
        id: Option<String>,
    },
    UnexpectedEnd {
        line: u64,
        id: Option<String>,
    },
}

impl ErrObs {
    pub fn kind(&self) -> &'static str {
        match self {
            ErrObs::Io(_) => "Io",
            ErrObs::BufferLimit => "BufferLimit",
            ErrObs::InvalidStart { .. } => "InvalidStart",
            ErrObs::InvalidSep { .. } => "InvalidSep",
            ErrObs::UnequalLengths { .. } => "UnequalLengths",
            ErrObs::UnexpectedEnd { .. } => "UnexpectedEnd",
        }
    }
    pub fn is_format(&self) -> bool {
        !matches!(self, ErrObs::Io(_) | ErrObs::BufferLimit)
    }
}

/// Accepted error outcome: fields that are `None` are not constrained.
#[derive(Clone, Debug)]
pub struct ErrPat {
    pub kind: &'static str,
    pub lines: Vec<u64>,
    pub found: Option<u8>,
    pub seq: Option<usize>,
    pub qual: Option<usize>,
    /// `Some(id)`: if the reader gives an id it must be this one
    pub id: Option<String>,
    /// true: the reader must not give an id
    pub no_id: bool,
}

impl ErrPat {
    pub fn matches(&self, e: &ErrObs) -> bool {
        let (kind, line, found, seq, qual, id) = match e {
            ErrObs::InvalidStart { line, found, id } => ("InvalidStart", *line, Some(*found), None, None, id),
            ErrObs::InvalidSep { line, found, id } => ("InvalidSep", *line, Some(*found), None, None, id),
            ErrObs::UnequalLengths { line, seq, qual, id } => {
                ("UnequalLengths", *line, None, Some(*seq), Some(*qual), id)
            }
            ErrObs::UnexpectedEnd { line, id } => ("UnexpectedEnd", *line, None, None, None, id),
            _ => return false,
        };
        if kind != self.kind || !self.lines.contains(&line) {
            return false;
        }
        if self.found.is_some() && self.found != found {
            return false;
        }
        if self.seq.is_some() && (self.seq != seq || self.qual != qual) {
            return false;
        }
        if let Some(given) = id {
            if self.no_id {
                return false;
            }
            if let Some(want) = &self.id {
                if want != given {
                    return false;
                }
            }
        }
        true
    }
}

#[derive(Clone, Debug)]
pub struct Item {
    /// byte offset and 1-based line of the item's first byte
    pub byte: u64,
    pub line: u64,
    /// exclusive end of the raw extent including the terminator of the last line (if present)
    pub end: u64,
    /// accepted record renderings (empty: a record is not an accepted outcome here)
    pub recs: Vec<RecObs>,
    pub errs: Vec<ErrPat>,
    pub end_ok: bool,
    /// FASTA only: this is the last record of the input, trailing empty sequence lines are
    /// compared leniently (see DESIGN 4.3)
    pub last: bool,
}

impl Item {
    pub fn rec_matches(&self, r: &RecObs) -> bool {
        if self.recs.iter().any(|m| m == r) {
            return true;
        }
        if self.last {
            // trailing empty lines at the very end of the input are open wording
            let strip = |l: &Vec<Vec<u8>>| {
                let mut l = l.clone();
                while l.last().map(|x| x.is_empty()).unwrap_or(false) {
                    l.pop();
                }
                l
            };
            return self
                .recs
                .iter()
                .any(|m| m.head == r.head && m.seq == r.seq && m.qual == r.qual && strip(&m.lines) == strip(&r.lines));
        }
        false
    }
    pub fn is_rec(&self) -> bool {
        !self.recs.is_empty()
    }
    /// the only accepted outcome is a record
    pub fn must_rec(&self) -> bool {
        !self.recs.is_empty() && self.errs.is_empty() && !self.end_ok
    }
}

#[derive(Clone, Debug)]
pub struct Model {
    pub fmt: Fmt,
    /// items[0..n-1] are records (possibly with alternatives), the last item is terminal
    pub items: Vec<Item>,
    /// number of leading items whose only accepted outcome is a record
    pub n_sure: usize,
}

impl Model {
    pub fn n_recs_max(&self) -> usize {
        self.items.iter().filter(|i| i.is_rec()).count()
    }
    /// records that are certainly delivered from `cursor` on
    pub fn sure_from(&self, cursor: usize) -> usize {
        self.n_sure.saturating_sub(cursor)
    }
    pub fn is_genuine(&self, r: &RecObs) -> Option<usize> {
        self.items.iter().position(|i| i.rec_matches(r))
    }
    pub fn genuine_from(&self, from: usize, r: &RecObs) -> Option<usize> {
        (from..self.items.len()).find(|&j| self.items[j].rec_matches(r))
    }
    pub fn terminal(&self) -> &Item {
        self.items.last().unwrap()
    }
}

fn trim_cr(l: &[u8]) -> &[u8] {
    if l.last() == Some(&b'\r') {
        &l[..l.len() - 1]
    } else {
        l
    }
}

/// Split into lines: (start offset, content without '\n', terminated by '\n'?)
fn lines_of(input: &[u8], from: usize) -> Vec<(usize, &[u8], bool)> {
    let mut out = vec![];
    let mut s = from;
    let mut i = from;
    while i < input.len() {
        if input[i] == b'\n' {
            out.push((s, &input[s..i], true));
            s = i + 1;
        }
        i += 1;
    }
    if s < input.len() {
        out.push((s, &input[s..], false));
    }
    out
}

fn is_blank(l: &[u8]) -> bool {
    l.is_empty() || l == b"\r"
}

pub fn build(fmt: Fmt, input: &[u8]) -> Model {
    let mut m = match fmt {
        Fmt::Fasta => fasta(input),
        Fmt::Fastq => fastq(input, 0, 1),
    };
    m.n_sure = m.items.iter().take_while(|i| i.must_rec()).count();
    m
}

fn end_item(byte: usize, line: u64, input_len: usize) -> Item {
    Item {
        byte: byte as u64,
        line,
        // whatever follows (blank lines) belongs to the raw extent the reader has to look at
        end: input_len as u64,
        recs: vec![],
        errs: vec![],
        end_ok: true,
        last: false,
    }
}

// ---------------------------------------------------------------------------
// FASTA (DESIGN 4.1)
// ---------------------------------------------------------------------------

fn fasta(input: &[u8]) -> Model {
    let lines = lines_of(input, 0);
    let mut items = vec![];
    // skip leading blank lines
    let mut i = 0;
    while i < lines.len() && is_blank(lines[i].1) {
        // an unterminated final "\r" may also be reported as invalid start (4.3)
        if !lines[i].2 && lines[i].1 == b"\r" {
            let mut it = end_item(lines[i].0, i as u64 + 1, input.len());
            it.errs.push(ErrPat {
                kind: "InvalidStart",
                lines: vec![i as u64 + 1],
                found: Some(b'\r'),
                seq: None,
                qual: None,
                id: None,
                no_id: true,
            });
            items.push(it);
            return Model {
                fmt: Fmt::Fasta,
                items,
                n_sure: 0,
            };
        }
        i += 1;
    }
    if i == lines.len() {
        items.push(end_item(input.len(), lines.len() as u64 + 1, input.len()));
        return Model {
            fmt: Fmt::Fasta,
            items,
            n_sure: 0,
        };
    }
    if lines[i].1[0] != b'>' {
        items.push(Item {
            byte: lines[i].0 as u64,
            line: i as u64 + 1,
            end: input.len() as u64,
            recs: vec![],
            errs: vec![ErrPat {
                kind: "InvalidStart",
                lines: vec![i as u64 + 1],
                found: Some(lines[i].1[0]),
                seq: None,
                qual: None,
                id: None,
                no_id: true,
            }],
            end_ok: false,
            last: false,
        });
        return Model {
            fmt: Fmt::Fasta,
            items,
            n_sure: 0,
        };
    }
    while i < lines.len() {
        // lines[i] starts with '>'
        let (start, hl, _) = lines[i];
        let mut j = i + 1;
        while j < lines.len() && lines[j].1.first() != Some(&b'>') {
            j += 1;
        }
        let is_last = j == lines.len();
        let end = if is_last { input.len() } else { lines[j].0 };
        // renderings: normally one; if the very last line of the input is unterminated and ends
        // in '\r', the field with or without that '\r' is accepted (4.3)
        let mut variants: Vec<bool> = vec![true];
        if is_last {
            let l = lines[j - 1];
            if !l.2 && l.1.last() == Some(&b'\r') {
                variants.push(false);
            }
        }
        let mut recs = vec![];
        for trim_last in variants {
            let field = |k: usize, raw: &[u8]| -> Vec<u8> {
                let l = lines[k];
                if !l.2 && !trim_last {
                    raw.to_vec()
                } else {
                    trim_cr(raw).to_vec()
                }
            };
            let head = field(i, &hl[1..]);
            let mut ls = vec![];
            let mut seq = vec![];
            for k in i + 1..j {
                let f = field(k, lines[k].1);
                seq.extend_from_slice(&f);
                ls.push(f);
            }
            recs.push(RecObs {
                head,
                lines: ls,
                seq,
                qual: vec![],
            });
        }
        items.push(Item {
            byte: start as u64,
            line: i as u64 + 1,
            end: end as u64,
            recs,
            errs: vec![],
            end_ok: false,
            last: is_last,
        });
        i = j;
    }
    items.push(end_item(input.len(), lines.len() as u64 + 1, input.len()));
    Model {
        fmt: Fmt::Fasta,
        items,
        n_sure: 0,
    }
}

// ---------------------------------------------------------------------------
// FASTQ (DESIGN 4.2 / 4.3)
// ---------------------------------------------------------------------------

fn id_of(headline: &[u8]) -> String {
    // headline includes the leading '@'
    let h = trim_cr(&headline[1..]);
    let id = h.split(|b| *b == b' ').next().unwrap_or(b"");
    String::from_utf8_lossy(id).into_owned()
}

pub fn fastq(input: &[u8], from: usize, first_line: u64) -> Model {
    let mut items = vec![];
    let mut s = from;
    let mut line = first_line;
    loop {
        // up to four lines starting at s
        let rest = &input[s..];
        let mut nl = vec![];
        for (k, b) in rest.iter().enumerate() {
            if *b == b'\n' {
                nl.push(s + k);
                if nl.len() == 4 {
                    break;
                }
            }
        }
        if nl.len() >= 3 {
            let l1 = &input[s..nl[0]];
            let l2 = &input[nl[0] + 1..nl[1]];
            let _l3 = &input[nl[1] + 1..nl[2]];
            let (l4, l4_term, end) = if nl.len() == 4 {
                (&input[nl[2] + 1..nl[3]], true, nl[3] + 1)
            } else {
                (&input[nl[2] + 1..], false, input.len())
            };
            let first = input[s];
            let sep_first = input[nl[1] + 1]; // exists: nl[2] >= nl[1]+1
            let id = if l1.first() == Some(&b'@') { Some(id_of(l1)) } else { None };
            let mut it = Item {
                byte: s as u64,
                line,
                end: end as u64,
                recs: vec![],
                errs: vec![],
                end_ok: false,
                last: false,
            };
            let truncated_alt = !l4_term && l4.is_empty(); // three terminated lines, nothing after
            if first != b'@' {
                it.errs.push(ErrPat {
                    kind: "InvalidStart",
                    lines: vec![line],
                    found: Some(first),
                    seq: None,
                    qual: None,
                    id: None,
                    no_id: true,
                });
                // blank tail with exactly three '\n' after the last record: end of input is accepted
                if nl.len() == 3 && rest.split(|b| *b == b'\n').all(|p| is_blank(p)) {
                    it.end_ok = true;
                }
                if truncated_alt {
                    it.errs.push(ErrPat {
                        kind: "UnexpectedEnd",
                        lines: vec![line + 3, line + 2],
                        found: None,
                        seq: None,
                        qual: None,
                        id: None,
                        no_id: false,
                    });
                }
                items.push(it);
                break;
            }
            if sep_first != b'+' {
                it.errs.push(ErrPat {
                    kind: "InvalidSep",
                    lines: vec![line + 2],
                    found: Some(sep_first),
                    seq: None,
                    qual: None,
                    id: id.clone(),
                    no_id: false,
                });
                if truncated_alt {
                    it.errs.push(ErrPat {
                        kind: "UnexpectedEnd",
                        lines: vec![line + 3, line + 2],
                        found: None,
                        seq: None,
                        qual: None,
                        id: id.clone(),
                        no_id: false,
                    });
                }
                items.push(it);
                break;
            }
            // lengths
            let seq_crlf = l2.last() == Some(&b'\r');
            let ts = trim_cr(l2).len();
            let tq = trim_cr(l4).len();
            let rec = |qual: &[u8]| RecObs {
                head: trim_cr(&l1[1..]).to_vec(),
                lines: vec![],
                seq: trim_cr(l2).to_vec(),
                qual: qual.to_vec(),
            };
            let unequal = |s_: usize, q_: usize| ErrPat {
                kind: "UnequalLengths",
                lines: vec![line],
                found: None,
                seq: Some(s_),
                qual: Some(q_),
                id: id.clone(),
                no_id: false,
            };
            if l4_term {
                let q_crlf = l4.last() == Some(&b'\r');
                if q_crlf == seq_crlf {
                    if ts == tq {
                        it.recs.push(rec(trim_cr(l4)));
                    } else {
                        it.errs.push(unequal(ts, tq));
                    }
                } else {
                    // mixed terminators inside one record: outside the length claim
                    it.recs.push(rec(trim_cr(l4)));
                    it.errs.push(unequal(ts, tq));
                }
            } else {
                // last line unterminated: end of input counts as either terminator
                if l4.last() == Some(&b'\r') && !seq_crlf {
                    // lone '\r' at the very end: field with or without it
                    let with = l4.len();
                    if ts == tq || ts == with {
                        it.recs.push(rec(trim_cr(l4)));
                        it.recs.push(rec(l4));
                    }
                    if ts != tq || ts != with {
                        it.errs.push(unequal(ts, tq));
                        it.errs.push(unequal(ts, with));
                    }
                } else if ts == tq {
                    it.recs.push(rec(trim_cr(l4)));
                } else {
                    it.errs.push(unequal(ts, tq));
                    if truncated_alt {
                        it.errs.push(ErrPat {
                            kind: "UnexpectedEnd",
                            lines: vec![line + 3, line + 2],
                            found: None,
                            seq: None,
                            qual: None,
                            id: id.clone(),
                            no_id: false,
                        });
                    }
                }
            }
            let is_rec = !it.recs.is_empty();
            items.push(it);
            if !is_rec {
                break;
            }
            s = end;
            line += 4;
            if s >= input.len() {
                items.push(end_item(input.len(), line, input.len()));
                break;
            }
            continue;
        }
        // fewer than three '\n'
        if rest.split(|b| *b == b'\n').all(|p| is_blank(p)) {
            items.push(end_item(s, line, input.len()));
            break;
        }
        let n = nl.len() as u64;
        let mut lines_ok = vec![line + n];
        if rest.last() == Some(&b'\n') && n > 0 {
            lines_ok.push(line + n - 1);
        }
        let first = rest[0];
        let l1_end = nl.first().copied().unwrap_or(input.len());
        let id = if first == b'@' { Some(id_of(&input[s..l1_end])) } else { None };
        let mut it = Item {
            byte: s as u64,
            line,
            end: input.len() as u64,
            recs: vec![],
            errs: vec![ErrPat {
                kind: "UnexpectedEnd",
                lines: lines_ok,
                found: None,
                seq: None,
                qual: None,
                id: id.clone(),
                no_id: false,
            }],
            end_ok: false,
            last: false,
        };
        // truncated and also a wrong first byte / separator: the other kind is accepted too
        if first != b'@' {
            it.errs.push(ErrPat {
                kind: "InvalidStart",
                lines: vec![line],
                found: Some(first),
                seq: None,
                qual: None,
                id: None,
                no_id: true,
            });
        } else if nl.len() == 2 && nl[1] + 1 < input.len() && input[nl[1] + 1] != b'+' {
            it.errs.push(ErrPat {
                kind: "InvalidSep",
                lines: vec![line + 2],
                found: Some(input[nl[1] + 1]),
                seq: None,
                qual: None,
                id,
                no_id: false,
            });
        }
        items.push(it);
        break;
    }
    Model {
        fmt: Fmt::Fastq,
        items,
        n_sure: 0,
    }
}
