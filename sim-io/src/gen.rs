//! Swarm-style generators: inputs (valid, defective, hostile, binary),
//! reader configurations (capacity / policy / chunking) and operation
//! histories; plus the shared shrinker for read scenarios.

use crate::scn::*;
use vcore::Rng;

pub const HOSTILE: &[u8] = b">@+\n\r AC;>@\n\n\rG+";

#[derive(Clone, Copy, Debug, PartialEq)]
pub enum Ending {
    Lf,
    Crlf,
    Mixed,
}

#[derive(Clone, Debug, Default)]
pub struct AFasta {
    pub recs: Vec<(Vec<u8>, Vec<Vec<u8>>)>,
}

#[derive(Clone, Debug, Default)]
pub struct AFastq {
    pub recs: Vec<(Vec<u8>, Vec<u8>, Vec<u8>)>,
}

fn field(rng: &Rng, max: usize, alphabet: &[u8], wild: bool) -> Vec<u8> {
    let n = rng.small(max);
    let mut v = Vec::with_capacity(n);
    for _ in 0..n {
        if wild && rng.chance(1, 12) {
            // any byte except LF / CR
            let mut b = rng.below(256) as u8;
            if b == b'\n' || b == b'\r' {
                b = 0x80;
            }
            v.push(b);
        } else {
            v.push(*rng.pick(alphabet));
        }
    }
    v
}

pub fn gen_head(rng: &Rng, max: usize, wild: bool) -> Vec<u8> {
    let alpha: &[u8] = if rng.chance(1, 3) {
        b"id1 2  x>@+;"
    } else {
        b"abcXYZ019_ "
    };
    let mut h = field(rng, max, alpha, wild);
    if wild && rng.chance(1, 60) {
        // a header of several hundred bytes with multi-byte and invalid UTF-8 sequences
        // now and then far beyond that (4 KiB and 64 KiB: fixed-size id buffers, u16 lengths)
        let n = if rng.chance(1, 10) { *rng.pick(&[rng.range(4090, 4110), rng.range(5000, 9000), rng.range(65530, 66000)]) } else { rng.range(200, 700) };
        let spaces = n < 1000 || rng.chance(1, 2);
        h = (0..n)
            .map(|_| match rng.below(12) {
                0 => 0xc3,
                1 => 0xa9,
                2 => 0xe2,
                3 => 0x82,
                4 => 0xac,
                5 => 0xff,
                6 if spaces && rng.chance(1, 40) => b' ',
                _ => *rng.pick(b"abcXYZ019_"),
            })
            .collect();
    }
    // headers must not end in CR for the well-formed generators
    while h.last() == Some(&b'\r') {
        h.pop();
    }
    h
}

pub fn gen_afasta(rng: &Rng, max_recs: usize, wild: bool) -> AFasta {
    let n = 1 + rng.small(max_recs.saturating_sub(1));
    let mut a = AFasta::default();
    let uniform_lines = rng.chance(1, 3);
    let width = rng.range(1, 12);
    for _ in 0..n {
        let head = gen_head(rng, 14, wild);
        let nl = if rng.chance(1, 6) { 0 } else { 1 + rng.small(4) };
        let mut lines = vec![];
        for k in 0..nl {
            let mut l = if uniform_lines && k + 1 < nl {
                (0..width).map(|_| *rng.pick(b"ACGT")).collect::<Vec<u8>>()
            } else {
                field(rng, 14, b"ACGTNacgt-*", wild)
            };
            if l.first() == Some(&b'>') {
                l[0] = b'A';
            }
            // a sequence line must not be empty in a well-formed file
            if l.is_empty() {
                l.push(b'N');
            }
            lines.push(l);
        }
        a.recs.push((head, lines));
    }
    a
}

pub fn gen_afastq(rng: &Rng, max_recs: usize, wild: bool) -> AFastq {
    let n = 1 + rng.small(max_recs.saturating_sub(1));
    let mut a = AFastq::default();
    let uniform = rng.chance(1, 3);
    let ulen = rng.range(0, 10);
    for _ in 0..n {
        let head = gen_head(rng, 12, wild);
        let len = if uniform { ulen } else { rng.small(16) };
        let seq: Vec<u8> = (0..len).map(|_| *rng.pick(b"ACGTN")).collect();
        let qual: Vec<u8> = (0..len)
            .map(|_| if wild && rng.chance(1, 10) { *rng.pick(b"@+>!~") } else { *rng.pick(b"IJFA#5") })
            .collect();
        a.recs.push((head, seq, qual));
    }
    a
}

fn term(rng: &Rng, e: Ending, out: &mut Vec<u8>) {
    match e {
        Ending::Lf => out.push(b'\n'),
        Ending::Crlf => out.extend_from_slice(b"\r\n"),
        Ending::Mixed => {
            if rng.chance(1, 2) {
                out.push(b'\n')
            } else {
                out.extend_from_slice(b"\r\n")
            }
        }
    }
}

/// `blank`: probability (per 16) of an extra blank line after any line; `lead`: leading blank lines
pub fn render_fasta(rng: &Rng, a: &AFasta, e: Ending, final_term: bool, lead: usize, blank16: u64) -> Vec<u8> {
    let mut out = vec![];
    for _ in 0..lead {
        term(rng, e, &mut out);
    }
    let total_lines: usize = a.recs.iter().map(|r| 1 + r.1.len()).sum();
    let mut k = 0;
    for (head, lines) in &a.recs {
        out.push(b'>');
        out.extend_from_slice(head);
        k += 1;
        if k < total_lines || final_term {
            term(rng, e, &mut out);
        }
        for l in lines {
            while blank16 > 0 && rng.chance(blank16, 16) {
                term(rng, e, &mut out);
            }
            out.extend_from_slice(l);
            k += 1;
            if k < total_lines || final_term {
                term(rng, e, &mut out);
            }
        }
        while blank16 > 0 && k < total_lines && rng.chance(blank16, 16) {
            term(rng, e, &mut out);
        }
    }
    out
}

pub fn render_fastq(rng: &Rng, a: &AFastq, e: Ending, final_term: bool, trailing_blank: usize) -> Vec<u8> {
    let mut out = vec![];
    let n = a.recs.len();
    for (i, (head, seq, qual)) in a.recs.iter().enumerate() {
        // inside one record the same terminator is used (mixed terminators inside a record are
        // outside the documented format); Mixed varies per record
        let ee = match e {
            Ending::Mixed => {
                if rng.chance(1, 2) {
                    Ending::Lf
                } else {
                    Ending::Crlf
                }
            }
            x => x,
        };
        out.push(b'@');
        out.extend_from_slice(head);
        term(rng, ee, &mut out);
        out.extend_from_slice(seq);
        term(rng, ee, &mut out);
        out.push(b'+');
        if rng.chance(1, 8) {
            out.extend_from_slice(head);
        }
        term(rng, ee, &mut out);
        out.extend_from_slice(qual);
        if i + 1 < n || final_term {
            term(rng, ee, &mut out);
        }
    }
    if final_term {
        for _ in 0..trailing_blank {
            term(rng, e, &mut out);
        }
    }
    out
}

pub fn hostile(rng: &Rng, max: usize) -> Vec<u8> {
    let n = rng.range(0, max);
    (0..n)
        .map(|_| {
            if rng.chance(1, 20) {
                rng.below(256) as u8
            } else {
                *rng.pick(HOSTILE)
            }
        })
        .collect()
}

pub fn binary(rng: &Rng, max: usize) -> Vec<u8> {
    let n = rng.range(0, max);
    (0..n).map(|_| rng.below(256) as u8).collect()
}

fn pick_ending(rng: &Rng) -> Ending {
    match rng.below(6) {
        0..=2 => Ending::Lf,
        3..=4 => Ending::Crlf,
        _ => Ending::Mixed,
    }
}

/// FASTA input of any kind. Returns (bytes, class label)
pub fn fasta_any(rng: &Rng, max_recs: usize, max_noise: usize) -> (Vec<u8>, &'static str) {
    match rng.below(20) {
        0 if rng.chance(1, 6) => {
            // records of 20-80 sequence lines whose line *starts* are equally spaced although the
            // lines differ: LF and CRLF terminators mixed (content one byte shorter before CRLF),
            // and now and then a line whose content ends in a CR of its own
            let mut v = vec![];
            for i in 0..rng.range(1, 3) {
                v.extend_from_slice(format!(">w{} eq\n", i).as_bytes());
                let w = rng.range(3, 12);
                for _ in 0..rng.range(20, 80) {
                    match rng.below(5) {
                        0 | 1 => {
                            v.extend((0..w - 2).map(|_| *rng.pick(b"ACGT")));
                            v.extend_from_slice(b"\r\n");
                        }
                        2 if rng.chance(1, 4) => {
                            v.extend((0..w - 3).map(|_| *rng.pick(b"ACGT")));
                            v.extend_from_slice(b"\r\r\n");
                        }
                        _ => {
                            v.extend((0..w - 1).map(|_| *rng.pick(b"ACGT")));
                            v.push(b'\n');
                        }
                    }
                }
            }
            (v, "equally_spaced_lines")
        }
        0..=10 => {
            let a = gen_afasta(rng, max_recs, rng.chance(1, 3));
            let e = pick_ending(rng);
            let lead = if rng.chance(1, 4) { rng.small(40) } else { 0 };
            let blank = if rng.chance(1, 4) { rng.range(1, 6) as u64 } else { 0 };
            let mut v = render_fasta(rng, &a, e, rng.chance(3, 4), lead, blank);
            if rng.chance(1, 8) {
                // trailing blank lines / lone CR
                for _ in 0..rng.range(1, 4) {
                    v.extend_from_slice(*rng.pick(&[&b"\n"[..], b"\r\n", b"\r"]));
                }
            }
            (v, "valid")
        }
        11..=12 => {
            // invalid start
            let a = gen_afasta(rng, max_recs.min(3), false);
            let e = pick_ending(rng);
            let mut v = vec![];
            for _ in 0..rng.small(12) {
                term(rng, e, &mut v);
            }
            let bad = *rng.pick(b"@;AC +\r\x00x");
            v.push(bad);
            v.extend_from_slice(&field(rng, 6, b"AC>@", false));
            if rng.chance(3, 4) {
                term(rng, e, &mut v);
                v.extend_from_slice(&render_fasta(rng, &a, e, true, 0, 0));
            }
            (v, "invalid_start")
        }
        13..=16 => (hostile(rng, max_noise), "hostile"),
        17 => (binary(rng, max_noise), "binary"),
        18 => {
            // mutate a valid file: flip / delete / insert a byte
            let a = gen_afasta(rng, max_recs, true);
            let mut v = render_fasta(rng, &a, pick_ending(rng), rng.chance(1, 2), rng.small(3), 0);
            mutate(rng, &mut v);
            (v, "mutated")
        }
        _ => {
            let edge: &[&[u8]] = &[b"", b"\n", b"\r", b"\r\n", b">", b">\n", b">\r", b">\r\n", b"\n>", b">\n>", b">a", b">a\nA", b"\n\n\n", b">\n\n", b"A", b"\r\r"];
            (rng.pick(edge).to_vec(), "edge")
        }
    }
}

pub fn mutate(rng: &Rng, v: &mut Vec<u8>) {
    let n = 1 + rng.small(2);
    for _ in 0..n {
        if v.is_empty() {
            v.push(*rng.pick(HOSTILE));
            continue;
        }
        let i = rng.below(v.len() as u64) as usize;
        match rng.below(4) {
            0 => {
                v.remove(i);
            }
            1 => v.insert(i, *rng.pick(HOSTILE)),
            2 => v[i] = *rng.pick(HOSTILE),
            _ => v.truncate(i),
        }
    }
}

/// FASTQ defect kinds applied to record `at` of a rendered valid file
pub fn fastq_defect(rng: &Rng, a: &AFastq, e: Ending, at: usize) -> (Vec<u8>, &'static str) {
    let mut pre = AFastq::default();
    pre.recs = a.recs[..at].to_vec();
    let mut v = if pre.recs.is_empty() { vec![] } else { render_fastq(rng, &pre, e, true, 0) };
    let (head, seq, qual) = a.recs[at].clone();
    let ee = if e == Ending::Mixed { Ending::Lf } else { e };
    let mut rec = vec![];
    let mut push_line = |rng: &Rng, first: Option<u8>, body: &[u8], out: &mut Vec<u8>, terminated: bool| {
        if let Some(f) = first {
            out.push(f);
        }
        out.extend_from_slice(body);
        if terminated {
            term(rng, ee, out);
        }
    };
    let kind = rng.below(8);
    let label;
    match kind {
        0 => {
            label = "bad_start";
            let b = *rng.pick(b">+A;\r x");
            push_line(rng, Some(b), &head, &mut rec, true);
            push_line(rng, None, &seq, &mut rec, true);
            push_line(rng, Some(b'+'), b"", &mut rec, true);
            push_line(rng, None, &qual, &mut rec, rng.chance(1, 2));
        }
        1 => {
            label = "bad_sep";
            let b = *rng.pick(b"@-A; \rx");
            push_line(rng, Some(b'@'), &head, &mut rec, true);
            push_line(rng, None, &seq, &mut rec, true);
            push_line(rng, Some(b), b"", &mut rec, true);
            push_line(rng, None, &qual, &mut rec, rng.chance(1, 2));
        }
        2 => {
            label = "empty_sep";
            push_line(rng, Some(b'@'), &head, &mut rec, true);
            push_line(rng, None, &seq, &mut rec, true);
            push_line(rng, None, b"", &mut rec, true);
            push_line(rng, None, &qual, &mut rec, rng.chance(1, 2));
        }
        3 | 4 => {
            label = "unequal";
            let mut q = qual.clone();
            if q.is_empty() || rng.chance(1, 2) {
                for _ in 0..rng.range(1, 3) {
                    q.push(b'I');
                }
            } else {
                let cut = rng.range(1, q.len().min(3));
                q.truncate(q.len() - cut);
            }
            push_line(rng, Some(b'@'), &head, &mut rec, true);
            push_line(rng, None, &seq, &mut rec, true);
            push_line(rng, Some(b'+'), b"", &mut rec, true);
            push_line(rng, None, &q, &mut rec, rng.chance(1, 2));
        }
        _ => {
            label = "truncated";
            push_line(rng, Some(b'@'), &head, &mut rec, true);
            push_line(rng, None, &seq, &mut rec, true);
            push_line(rng, Some(b'+'), b"", &mut rec, true);
            push_line(rng, None, &qual, &mut rec, false);
            // cut somewhere before the quality line is complete
            let nl: Vec<usize> = rec.iter().enumerate().filter(|x| *x.1 == b'\n').map(|x| x.0).collect();
            let cut = match rng.below(4) {
                0 => nl[rng.below(3) as usize] + 1, // right after a terminator
                1 => nl[rng.below(3) as usize],     // right before the '\n'
                _ => rng.range(1, nl[2]),
            };
            rec.truncate(cut.max(1));
        }
    }
    v.extend_from_slice(&rec);
    // sometimes valid records follow the defect (they must not be delivered)
    if label != "truncated" && rec.last() == Some(&b'\n') && rng.chance(1, 2) && at + 1 < a.recs.len() {
        let mut post = AFastq::default();
        post.recs = a.recs[at + 1..].to_vec();
        v.extend_from_slice(&render_fastq(rng, &post, e, rng.chance(1, 2), 0));
    }
    (v, label)
}

/// 0..3 valid FASTQ records, then a group in which one of the four lines is 4-9 KiB long and the input
/// ends inside it (see `fastq_any`)
pub fn long_line_truncated(rng: &Rng) -> Vec<u8> {
    // 0..3 valid records, then a group in which one of the four lines is 4-9 KiB long and the
    // input ends inside it (optionally with a wrong first byte on that line): parsers
    // that look at a line before it is complete have to say the same at every capacity
    let a = gen_afastq(rng, 3, false);
    let mut v = if rng.chance(1, 3) { vec![] } else { render_fastq(rng, &a, Ending::Lf, true, 0) };
    let k = rng.below(4);
    let long = rng.range(4200, 9000);
    let bad_first = rng.chance(1, 2);
    let fill = |v: &mut Vec<u8>, n: usize, c: u8| v.extend(std::iter::repeat(c).take(n));
    // line 1
    v.push(if k == 0 && bad_first { *rng.pick(b"X\0>;") } else { b'@' });
    if k == 0 {
        fill(&mut v, long, *rng.pick(b"a\0I "));
        return v;
    }
    v.extend_from_slice(b"id2 x\n");
    // line 2
    if k == 1 {
        fill(&mut v, long, b'A');
        return v;
    }
    v.extend_from_slice(b"ACGT\n");
    // line 3
    v.push(if k == 2 && bad_first { *rng.pick(b"I-@A") } else { b'+' });
    if k == 2 {
        fill(&mut v, long, *rng.pick(b"Iid2 "));
        return v;
    }
    v.push(b'\n');
    // line 4
    fill(&mut v, long, b'I');
    v
}

pub fn fastq_any(rng: &Rng, max_recs: usize, max_noise: usize) -> (Vec<u8>, &'static str) {
    match rng.below(20) {
        0..=7 => {
            let a = gen_afastq(rng, max_recs, rng.chance(1, 3));
            let e = pick_ending(rng);
            let ft = rng.chance(2, 3);
            let tb = if rng.chance(1, 3) { rng.range(0, 5) } else { 0 };
            (render_fastq(rng, &a, e, ft, tb), "valid")
        }
        8..=12 => {
            let a = gen_afastq(rng, max_recs, rng.chance(1, 4));
            let e = pick_ending(rng);
            let at = rng.below(a.recs.len() as u64) as usize;
            fastq_defect(rng, &a, e, at)
        }
        13..=14 => (hostile(rng, max_noise), "hostile"),
        15 => {
            if rng.chance(1, 5) {
                (long_line_truncated(rng), "long_line_truncated")
            } else if rng.chance(1, 2) {
                // records of identical layout, one byte of a later record replaced by a structural byte
                // (mostly tiny records; now and then lines of 1-9 KiB, or runs of 18-40 records)
                let len = if rng.chance(1, 6) { *rng.pick(&[rng.range(1024, 2600), rng.range(1024, 2600), rng.range(4090, 4200), rng.range(4096, 9000)]) } else { rng.range(1, 8) };
                let n = if len < 100 && rng.chance(1, 5) { rng.range(18, 40) } else { rng.range(2, max_recs.max(2)) };
                let mut v = vec![];
                for i in 0..n {
                    v.extend_from_slice(format!("@i{}\n", i % 10).as_bytes());
                    v.extend((0..len).map(|_| *rng.pick(b"ACGT")));
                    v.extend_from_slice(b"\n+\n");
                    v.extend((0..len).map(|_| b'I'));
                    v.push(b'\n');
                }
                let rec_len = v.len() / n;
                let at = rec_len + rng.below((v.len() - rec_len) as u64) as usize;
                if v[at] != b'\n' {
                    v[at] = *rng.pick(b"\n\n\r@+");
                }
                (v, "uniform_substituted")
            } else {
                // a valid file followed by a short tail of CR / LF characters in any order
                let a = gen_afastq(rng, max_recs, false);
                let mut v = render_fastq(rng, &a, pick_ending(rng), true, 0);
                for _ in 0..rng.range(1, 6) {
                    v.push(*rng.pick(b"\r\n\r"));
                }
                (v, "crlf_tail")
            }
        }
        16 => (binary(rng, max_noise), "binary"),
        17..=18 => {
            let a = gen_afastq(rng, max_recs, true);
            let mut v = render_fastq(rng, &a, pick_ending(rng), rng.chance(1, 2), rng.small(3));
            mutate(rng, &mut v);
            (v, "mutated")
        }
        _ => {
            let edge: &[&[u8]] = &[
                b"", b"\n", b"\r", b"\r\n", b"@", b"@\n", b"@\n\n+\n", b"@\n\n+\n\n", b"@a\nA\n+\nI", b"@a\nA\n+\nI\n\n\n", b"@a\nA\n+\nI\n\n\n\n", b"\n\n\n", b"\n\n\n\n", b"@a\nA\n+", b"@a\nA\n+\n", b"@a\r\nA\r\n+\r\nI",
            ];
            (rng.pick(edge).to_vec(), "edge")
        }
    }
}

/// byte sequences that real files start with and that a parser might be tempted to treat specially
pub const MAGIC: &[&[u8]] = &[b"\xef\xbb\xbf", b"\xff\xfe", b"\xfe\xff", b"\x1f\x8b", b"\x00", b"BZh", b";", b"#", b"\x1a", b"\x0c", b" ", b"\t"];

pub fn any_input(rng: &Rng, fmt: Fmt, max_recs: usize, max_noise: usize) -> (Vec<u8>, &'static str) {
    let (mut v, class) = match fmt {
        Fmt::Fasta => fasta_any(rng, max_recs, max_noise),
        Fmt::Fastq => fastq_any(rng, max_recs, max_noise),
    };
    if rng.chance(1, 120) {
        // a magic prefix (BOM, gzip magic, NUL, ...) in front of whatever was generated, or alone
        let m = *rng.pick(MAGIC);
        if rng.chance(1, 6) {
            v = m.to_vec();
        } else {
            let mut w = m.to_vec();
            w.extend_from_slice(&v);
            v = w;
        }
        return (v, "magic_prefix");
    }
    (v, class)
}

/// valid input of `n` small records, used by the interrupt-storm / big-buffer profiles
pub fn many_small_records(rng: &Rng, fmt: Fmt, target_len: usize) -> Vec<u8> {
    let mut v = Vec::with_capacity(target_len + 64);
    let mut i = 0;
    while v.len() < target_len {
        let len = rng.range(0, 40);
        match fmt {
            Fmt::Fasta => {
                v.extend_from_slice(format!(">s{}\n", i).as_bytes());
                if len > 0 {
                    v.extend((0..len).map(|_| *rng.pick(b"ACGT")));
                    v.push(b'\n');
                }
            }
            Fmt::Fastq => {
                v.extend_from_slice(format!("@s{}\n", i).as_bytes());
                v.extend((0..len).map(|_| *rng.pick(b"ACGT")));
                v.extend_from_slice(b"\n+\n");
                v.extend((0..len).map(|_| b'I'));
                v.push(b'\n');
            }
        }
        i += 1;
    }
    v
}

/// One record (or defective record-like group) that is larger than a size at which code tends to
/// change its behaviour: the default capacity (64 KiB), 1 MiB, the 8 MiB growth step of the
/// standard policy, and 32 MiB. A few small valid records in front and (if the giant one is complete) behind.
/// Returns (input, class, threshold).
pub fn huge_input(rng: &Rng, fmt: Fmt) -> (Vec<u8>, String, usize) {
    // (32 MiB: rare, a scenario of that size costs about a second)
    let t = if rng.chance(1, 25) { 1usize << 25 } else { *rng.pick(&[65536usize, 65536, 65536, 65536, 65536, 65536, 65536, 65536, 1 << 20, 1 << 20, 1 << 20, 1 << 23]) };
    let size = t / 10 * rng.range(11, 25);
    let crlf = rng.chance(1, 4);
    let nl: &[u8] = if crlf { b"\r\n" } else { b"\n" };
    let mut v = if rng.chance(1, 2) { many_small_records(rng, fmt, rng.range(1, 120)) } else { vec![] };
    if crlf {
        v = v.split(|b| *b == b'\n').collect::<Vec<_>>().join(&b"\r\n"[..]);
    }
    let fill = |v: &mut Vec<u8>, n: usize, alpha: &[u8]| {
        let a = alpha[v.len() % alpha.len()];
        let b = alpha[(v.len() / 3) % alpha.len()];
        v.extend((0..n).map(|i| if i % 61 == 0 { b } else { a }));
    };
    let class: &str;
    let complete;
    match fmt {
        Fmt::Fastq => {
            let k = rng.below(8);
            let start = if k == 3 || k == 7 { b'X' } else { b'@' };
            v.push(start);
            v.extend_from_slice(b"giant 1");
            v.extend_from_slice(nl);
            match k {
                0 => {
                    fill(&mut v, size / 2, b"ACGT");
                    v.extend_from_slice(nl);
                    v.push(b'+');
                    v.extend_from_slice(nl);
                    fill(&mut v, size / 2, b"IJK#");
                    v.extend_from_slice(nl);
                    class = "huge/valid";
                    complete = true;
                }
                1 | 3 => {
                    // truncated inside the quality line (k == 3: and a wrong first byte)
                    fill(&mut v, size / 2, b"ACGT");
                    v.extend_from_slice(nl);
                    v.push(b'+');
                    v.extend_from_slice(nl);
                    fill(&mut v, size / 3, b"IJK#");
                    if rng.chance(1, 2) {
                        // ... or inside the sequence line
                        v.truncate(v.len() - size / 3 - nl.len() - 1 - nl.len() - rng.range(0, 9));
                    }
                    class = if k == 1 { "huge/truncated" } else { "huge/wrong_start_truncated" };
                    complete = false;
                }
                2 => {
                    fill(&mut v, size, b"ACGT");
                    class = "huge/truncated_in_sequence";
                    complete = false;
                }
                4 | 5 => {
                    let (ls, lq) = if k == 4 { (size / 5, size / 5 * 4) } else { (size / 3 * 2, size / 3) };
                    fill(&mut v, ls, b"ACGT");
                    v.extend_from_slice(nl);
                    v.push(b'+');
                    v.extend_from_slice(nl);
                    fill(&mut v, lq, b"IJK#");
                    v.extend_from_slice(nl);
                    class = if k == 4 { "huge/quality_longer" } else { "huge/quality_shorter" };
                    complete = true;
                }
                _ => {
                    fill(&mut v, size / 2, b"ACGT");
                    v.extend_from_slice(nl);
                    v.push(if k == 6 { b'-' } else { b'+' });
                    v.extend_from_slice(nl);
                    fill(&mut v, size / 2, b"IJK#");
                    v.extend_from_slice(nl);
                    class = if k == 6 { "huge/invalid_separator" } else { "huge/wrong_start" };
                    complete = true;
                }
            }
        }
        Fmt::Fasta => {
            let k = rng.below(4);
            v.push(b'>');
            if k == 2 {
                fill(&mut v, size / 2, b"abcdefgh ");
            } else {
                v.extend_from_slice(b"giant 1");
            }
            v.extend_from_slice(nl);
            match k {
                0 | 2 => {
                    fill(&mut v, size / 2, b"ACGT");
                    v.extend_from_slice(nl);
                    class = if k == 0 { "huge/one_line" } else { "huge/long_header" };
                }
                1 => {
                    // (millions of lines in one record are slow to observe: wider lines at the large sizes)
                    let w = if t > 1 << 20 { rng.range(60, 4000) } else { rng.range(1, 200) };
                    for _ in 0..size / (w + nl.len()) {
                        fill(&mut v, w, b"ACGT");
                        v.extend_from_slice(nl);
                    }
                    class = "huge/many_lines";
                }
                _ => {
                    fill(&mut v, size, b"ACGT");
                    class = "huge/no_final_terminator";
                }
            }
            complete = k != 3;
        }
    }
    if complete && rng.chance(2, 3) {
        let mut tail = many_small_records(rng, fmt, rng.range(1, 80));
        if crlf {
            tail = tail.split(|b| *b == b'\n').collect::<Vec<_>>().join(&b"\r\n"[..]);
        }
        v.extend_from_slice(&tail);
    }
    (v, class.to_string(), t)
}

/// Configurations around the threshold `t` of `huge_input`: capacities at, next to and far from it,
/// sources that deliver everything at once or in pieces of 4 KiB .. 1 MiB.
pub fn huge_cfg(rng: &Rng, t: usize, input_len: usize) -> Cfg {
    let cap = match rng.below(8) {
        0 => t,
        1 => t + 1,
        2 => t - 1,
        3 => 2 * t,
        4 => t / 2,
        5 => 65536,
        6 => rng.range(3, 300),
        _ => t + rng.range(0, t),
    };
    let script = match rng.below(5) {
        0 | 1 => vec![],
        2 => vec![65536],
        3 => vec![1 << 20],
        _ => vec![(if t <= 1 << 20 { rng.range(4096, 70_000) } else { rng.range(60_000, 3_000_000) }) as u32],
    };
    // a source that fills a huge buffer in one read hides limits on the size of a fill
    let script = if t > 1 << 23 && script.is_empty() && rng.chance(2, 3) { vec![1 << 20] } else { script
    };
    Cfg {
        cap,
        // (no additive policies here: growing by a few bytes per step is quadratic at this size)
        policy: match rng.below(6) {
            0 => PolicySpec::Mul(3),
            1 => PolicySpec::JumpTo(input_len + rng.range(1, 20)),
            2 => PolicySpec::DoubleUntil(rng.range(1, 40) << 20),
            _ => PolicySpec::Std,
        },
        script,
        cuts: vec![],
        faults: vec![],
        intr_burst: None,
        lift: None,
        pause: None,
    }
}

/// "interrupt storm": a large buffer filled one or two bytes at a time with an Interrupted
/// before every read, so that one single fill sees thousands of interruptions
pub fn storm_cfg(rng: &Rng) -> Cfg {
    Cfg {
        cap: rng.range(1100, 2600),
        policy: PolicySpec::Std,
        script: match rng.below(3) {
            0 => vec![0, 1],
            1 => vec![0, 2, 0, 1],
            _ => vec![0, 1, 0, 0, 3],
        },
        cuts: vec![],
        faults: vec![],
        // sometimes a long run of consecutive interruptions on top (retry budgets)
        // (one storm in eight beyond a 16-bit retry counter, one in forty beyond 2^20)
        intr_burst: if rng.chance(1, 2) {
            let len = match rng.below(40) {
                0 => rng.range(1_048_570, 1_100_000),
                1..=5 => rng.range(65_530, 70_000),
                _ => rng.range(200, 2500),
            };
            Some((rng.range(0, 40), len))
        } else {
            None
        },
        lift: None, pause: None,
    }
}

// ---------------------------------------------------------------------------
// configurations
// ---------------------------------------------------------------------------

/// offsets where a read boundary is most likely to matter
pub fn interesting_cuts(input: &[u8]) -> Vec<usize> {
    let mut v = vec![];
    for (i, b) in input.iter().enumerate() {
        if *b == b'\n' {
            v.push(i);
            v.push(i + 1);
            if i + 2 <= input.len() {
                v.push(i + 2);
            }
        } else if *b == b'\r' {
            v.push(i);
            v.push(i + 1);
        }
    }
    v.retain(|x| *x > 0 && *x < input.len());
    v.dedup();
    v
}

/// lengths between record starts (rough, format-agnostic: distance between '\n' followed by
/// '>' or '@')
pub fn rough_record_lens(input: &[u8]) -> Vec<usize> {
    let mut starts = vec![0usize];
    for i in 1..input.len() {
        if input[i - 1] == b'\n' && (input[i] == b'>' || input[i] == b'@') {
            starts.push(i);
        }
    }
    starts.push(input.len());
    starts.windows(2).map(|w| w[1] - w[0]).filter(|l| *l > 0).collect()
}

pub fn gen_cap(rng: &Rng, input: &[u8]) -> usize {
    if input.len() > 2000 && rng.chance(1, 5) {
        // inputs of several KiB: capacities anywhere below their length
        return rng.range(512, input.len());
    }
    let lens = rough_record_lens(input);
    let c = match rng.below(12) {
        0..=4 => rng.range(3, 24),
        5..=7 if !lens.is_empty() => {
            let l = *rng.pick(&lens) as i64;
            (l + rng.range(0, 4) as i64 - 2).max(3) as usize
        }
        5..=7 => rng.range(3, 12),
        8 => rng.range(25, 90),
        9 => (input.len() as i64 + rng.range(0, 4) as i64 - 2).max(3) as usize,
        10 => rng.range(3, 6),
        _ => {
            if rng.chance(1, 8) {
                65536
            } else {
                rng.range(90, 400)
            }
        }
    };
    c.max(3)
}

pub fn gen_script(rng: &Rng, interrupts: bool) -> Vec<u32> {
    match rng.below(10) {
        0..=2 => vec![],
        3 => vec![1],
        4 => vec![rng.range(2, 9) as u32],
        5 => vec![rng.range(1, 3) as u32, rng.range(5, 40) as u32],
        _ => {
            let n = rng.range(1, 7);
            let mut v: Vec<u32> = (0..n)
                .map(|_| {
                    if interrupts && rng.chance(1, 4) {
                        0
                    } else {
                        1 + rng.small(12) as u32
                    }
                })
                .collect();
            if v.iter().all(|x| *x == 0) {
                v.push(1);
            }
            v
        }
    }
}

pub fn gen_cuts(rng: &Rng, input: &[u8]) -> Vec<usize> {
    if input.is_empty() || rng.chance(1, 2) {
        return vec![];
    }
    let ic = interesting_cuts(input);
    let n = rng.range(1, 3);
    let mut v = vec![];
    for _ in 0..n {
        if !ic.is_empty() && rng.chance(3, 4) {
            v.push(*rng.pick(&ic));
        } else {
            v.push(rng.range(1, input.len()));
        }
    }
    v.sort();
    v.dedup();
    v
}

/// a policy that always permits the needed size
pub fn gen_permissive_policy(rng: &Rng, input_len: usize) -> PolicySpec {
    match rng.below(12) {
        0..=5 => PolicySpec::Std,
        6 => PolicySpec::DoubleUntil(rng.range(1, 40)),
        7 => PolicySpec::Add(1),
        8 => PolicySpec::Add(rng.range(2, 9)),
        9 => PolicySpec::Mul(3),
        10 if rng.chance(1, 2) => PolicySpec::Stall(rng.range(1, 4)),
        10 => PolicySpec::JumpTo(input_len + rng.range(1, 20)),
        _ => PolicySpec::DoubleUntilLimited(rng.range(1, 64), 1 << 20),
    }
}

pub fn gen_refusing_policy(rng: &Rng, cap: usize) -> PolicySpec {
    match rng.below(5) {
        0 => PolicySpec::Refuse,
        1 => PolicySpec::RefuseAfter(rng.range(0, 3)),
        2 => PolicySpec::DoubleLimit(cap * rng.range(1, 4) + rng.range(0, 3)),
        3 => PolicySpec::DoubleUntilLimited(rng.range(1, 32), cap * rng.range(1, 4) + rng.range(0, 5)),
        _ => PolicySpec::DoubleLimit(cap + rng.range(0, cap)),
    }
}

/// how an injected io::Error is built (see scn::Fault::payload)
pub fn gen_payload(rng: &Rng) -> String {
    match rng.below(9) {
        0..=3 => String::new(),
        // raw OS errors: ESPIPE, EIO, EAGAIN, EPIPE, ENOSPC, EACCES, ETIMEDOUT (not EINTR: that one
        // is an interruption, which the readers retry)
        8 => format!("os:{}", rng.pick(&[29, 29, 5, 11, 32, 28, 13, 110])),
        4 => "msg".into(),
        5 => format!("nested:{}", rng.pick(&["Interrupted", "BrokenPipe", "UnexpectedEof", "Other"])),
        6 => "nested:Interrupted".into(),
        _ => "seqio".into(),
    }
}

pub fn gen_cfg(rng: &Rng, input: &[u8], interrupts: bool) -> Cfg {
    let cap = gen_cap(rng, input);
    Cfg {
        cap,
        policy: gen_permissive_policy(rng, input.len()),
        script: gen_script(rng, interrupts),
        cuts: gen_cuts(rng, input),
        // (now and then more interruptions in a row than a 16-bit or a 2^20 retry counter holds)
        intr_burst: if interrupts && rng.chance(1, 40) {
            let len = match rng.below(60) {
                0 if rng.chance(1, 3) => rng.range(65_530, 70_000),
                1 if rng.chance(1, 40) => rng.range(1_048_570, 1_100_000),
                _ => rng.range(7, 40),
            };
            Some((rng.small(12), len))
        } else {
            None
        },
        faults: vec![],
        lift: None, pause: None,
    }
}

// ---------------------------------------------------------------------------
// histories
// ---------------------------------------------------------------------------

pub fn ops_next_to_end(n_recs: usize) -> Vec<Op> {
    (0..n_recs + 3).map(|_| Op::Next).collect()
}

#[derive(Clone, Copy)]
pub struct OpMix {
    pub next: u64,
    pub owned: u64,
    pub set: u64,
    pub exact: u64,
    pub seek: u64,
    pub iter: u64,
}

pub fn gen_history(rng: &Rng, mix: OpMix, len: usize, n_items: usize, tail: bool) -> Vec<Op> {
    let total = mix.next + mix.owned + mix.set + mix.exact + mix.seek + mix.iter;
    let mut ops = vec![];
    for _ in 0..len {
        let mut x = rng.below(total.max(1));
        let op = if x < mix.next {
            Op::Next
        } else if {
            x -= mix.next;
            x < mix.owned
        } {
            Op::OwnedNext
        } else if {
            x -= mix.owned;
            x < mix.set
        } {
            Op::ReadSet(rng.below(N_SLOTS as u64) as usize)
        } else if {
            x -= mix.set;
            x < mix.exact
        } {
            Op::ReadSetExact(rng.below(N_SLOTS as u64) as usize, if rng.chance(1, 40) { *rng.pick(&[usize::MAX, usize::MAX - 1, 1 << 40, 1 << 31, 65536]) } else { 1 + rng.small(5) })
        } else if {
            x -= mix.exact;
            x < mix.seek
        } {
            Op::SeekRec(rng.below(n_items.max(1) as u64) as usize)
        } else {
            Op::IterSet(rng.below(N_SLOTS as u64) as usize)
        };
        ops.push(op);
    }
    if tail {
        // read on to the end with one kind of read so the whole input is covered often
        let kind = rng.below(4);
        for _ in 0..n_items + 2 {
            ops.push(match kind {
                0 | 1 => Op::Next,
                2 => Op::ReadSet(rng.below(N_SLOTS as u64) as usize),
                _ => Op::ReadSetExact(rng.below(N_SLOTS as u64) as usize, 1 + rng.small(3)),
            });
        }
    }
    ops
}

// ---------------------------------------------------------------------------
// shrinking of read scenarios
// ---------------------------------------------------------------------------

pub fn shrink_read(scn: &ReadScn) -> Vec<ReadScn> {
    // every candidate is a copy of the scenario: for inputs of several MiB the candidate list would
    // take gigabytes (and an execution seconds), so such a scenario is reported as it is
    if scn.input.len() > 2_000_000 {
        return vec![];
    }
    let mut out: Vec<ReadScn> = vec![];
    let mut push = |s: ReadScn| {
        if &s != scn {
            out.push(s);
        }
    };
    // drop configurations (keep at least two for differential scenarios, one otherwise)
    let min_cfgs = if scn.cfgs.len() >= 2 { 2 } else { 1 };
    if scn.cfgs.len() > min_cfgs {
        for i in 0..scn.cfgs.len() {
            let mut s = scn.clone();
            s.cfgs.remove(i);
            push(s);
        }
    }
    // drop ops: tail halves, then single ops
    let n = scn.ops.len();
    if n > 1 {
        let mut s = scn.clone();
        s.ops.truncate(n / 2);
        push(s);
        let mut s = scn.clone();
        s.ops.truncate(n - 1);
        push(s);
        for i in 0..n {
            let mut s = scn.clone();
            s.ops.remove(i);
            push(s);
        }
    }
    // input: remove chunks
    let len = scn.input.len();
    let mut sizes = vec![];
    let mut sz = len / 2;
    while sz >= 1 {
        sizes.push(sz);
        sz /= 2;
    }
    for sz in sizes {
        let mut start = 0;
        let mut tried = 0;
        while start + sz <= len && tried < 40 {
            let mut s = scn.clone();
            s.input.drain(start..start + sz);
            push(s);
            start += sz;
            tried += 1;
        }
    }
    // remove whole lines
    {
        let mut starts = vec![0usize];
        for (i, b) in scn.input.iter().enumerate() {
            if *b == b'\n' && i + 1 < len {
                starts.push(i + 1);
            }
        }
        starts.push(len);
        if starts.len() > 2 && starts.len() < 60 {
            for w in starts.windows(2) {
                let mut s = scn.clone();
                s.input.drain(w[0]..w[1]);
                push(s);
            }
        }
    }
    // simplify ops
    for i in 0..n {
        let simpler = match &scn.ops[i] {
            Op::ReadSetExact(_, _) | Op::ReadSet(_) | Op::OwnedNext | Op::Drain => Some(Op::Next),
            Op::ShrinkSet(_) => Some(Op::IterSet(0)),
            _ => None,
        };
        if let Some(op) = simpler {
            let mut s = scn.clone();
            s.ops[i] = op;
            push(s);
        }
        if let Op::ReadSetExact(slot, k) = &scn.ops[i] {
            if *k > 1 {
                let mut s = scn.clone();
                s.ops[i] = Op::ReadSetExact(*slot, k - 1);
                push(s);
            }
            if *slot != 0 {
                let mut s = scn.clone();
                s.ops[i] = Op::ReadSetExact(0, *k);
                push(s);
            }
        }
        if let Op::ReadSet(slot) = &scn.ops[i] {
            if *slot != 0 {
                let mut s = scn.clone();
                s.ops[i] = Op::ReadSet(0);
                push(s);
            }
        }
    }
    // simplify configurations
    for ci in 0..scn.cfgs.len() {
        let c = &scn.cfgs[ci];
        if !c.script.is_empty() {
            let mut s = scn.clone();
            s.cfgs[ci].script = vec![];
            push(s);
            if c.script.iter().any(|x| *x == 0) {
                let mut s = scn.clone();
                s.cfgs[ci].script.retain(|x| *x != 0);
                push(s);
            }
            if c.script.len() > 1 {
                for i in 0..c.script.len() {
                    let mut s = scn.clone();
                    s.cfgs[ci].script.remove(i);
                    if s.cfgs[ci].script.iter().all(|x| *x == 0) {
                        continue;
                    }
                    push(s);
                }
            }
        }
        for i in 0..c.cuts.len() {
            let mut s = scn.clone();
            s.cfgs[ci].cuts.remove(i);
            push(s);
        }
        for i in 0..c.faults.len() {
            let mut s = scn.clone();
            s.cfgs[ci].faults.remove(i);
            push(s);
        }
        for (i, f) in c.faults.iter().enumerate() {
            if f.kind != "Other" {
                let mut s = scn.clone();
                s.cfgs[ci].faults[i].kind = "Other".into();
                push(s);
            }
        }
        if c.policy != PolicySpec::Std {
            let mut s = scn.clone();
            s.cfgs[ci].policy = PolicySpec::Std;
            push(s);
        }
        for cap in [3usize, c.cap / 2, c.cap.saturating_sub(1), 64] {
            if cap >= 3 && cap != c.cap && (cap < c.cap || c.cap > 64) {
                let mut s = scn.clone();
                s.cfgs[ci].cap = cap;
                push(s);
            }
        }
    }
    // monitors off
    let m = &scn.mon;
    if m.views || m.iters || m.serde || m.unchanged {
        for k in 0..4 {
            let mut s = scn.clone();
            match k {
                0 => s.mon.views = false,
                1 => s.mon.iters = false,
                2 => s.mon.serde = false,
                _ => s.mon.unchanged = false,
            }
            push(s);
        }
    }
    // replace single bytes by a plain letter (makes the replay easier to read)
    if len <= 48 {
        for i in 0..len {
            let b = scn.input[i];
            if b != b'A' && b != b'\n' && b != b'>' && b != b'@' && b != b'+' && b != b'\r' {
                let mut s = scn.clone();
                s.input[i] = b'A';
                push(s);
            }
        }
    }
    out
}
