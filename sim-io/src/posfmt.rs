//! A compact, *positional* serde format (in the style of bincode / postcard): struct fields are
//! written in order without their names, sequences and maps with a length prefix, options with a
//! tag, enum variants by index. It is not self-describing - `deserialize_any` is an error - so a
//! `Serialize` impl that leaves a field out (`skip_serializing_if`) or a `Deserialize` impl that
//! relies on field names or on buffering the content breaks the round trip here although JSON and
//! CBOR, which write names, do not notice. None of the positional formats is in the cargo cache,
//! hence this one (about 300 lines, tokens instead of bytes: the encoding of numbers is not the
//! point).

use serde::de::{self, DeserializeSeed, EnumAccess, MapAccess, SeqAccess, VariantAccess, Visitor};
use serde::ser::{self, Serialize};
use std::fmt;

#[derive(Clone, Debug, PartialEq)]
pub enum Tok {
    Bool(bool),
    I(i64),
    U(u64),
    F(f64),
    Char(char),
    Str(String),
    Bytes(Vec<u8>),
    None,
    Some,
    Unit,
    /// length prefix of a sequence or a map
    Len(usize),
    Variant(u32),
}

#[derive(Debug)]
pub struct Error(pub String);
impl fmt::Display for Error {
    fn fmt(&self, f: &mut fmt::Formatter) -> fmt::Result {
        f.write_str(&self.0)
    }
}
impl std::error::Error for Error {}
impl ser::Error for Error {
    fn custom<T: fmt::Display>(msg: T) -> Self {
        Error(msg.to_string())
    }
}
impl de::Error for Error {
    fn custom<T: fmt::Display>(msg: T) -> Self {
        Error(msg.to_string())
    }
}

pub fn to_tokens<T: Serialize>(v: &T) -> Result<Vec<Tok>, Error> {
    let mut s = Ser { out: vec![] };
    v.serialize(&mut s)?;
    Ok(s.out)
}

pub fn from_tokens<T: de::DeserializeOwned>(toks: &[Tok]) -> Result<T, Error> {
    let mut d = De { toks, pos: 0 };
    let v = T::deserialize(&mut d)?;
    if d.pos != toks.len() {
        return Err(Error(format!("{} token(s) left over after the value", toks.len() - d.pos)));
    }
    Ok(v)
}

pub struct Ser {
    out: Vec<Tok>,
}

impl<'a> ser::Serializer for &'a mut Ser {
    type Ok = ();
    type Error = Error;
    type SerializeSeq = Self;
    type SerializeTuple = Self;
    type SerializeTupleStruct = Self;
    type SerializeTupleVariant = Self;
    type SerializeMap = Self;
    type SerializeStruct = Self;
    type SerializeStructVariant = Self;

    fn is_human_readable(&self) -> bool {
        false
    }
    fn serialize_bool(self, v: bool) -> Result<(), Error> {
        self.out.push(Tok::Bool(v));
        Ok(())
    }
    fn serialize_i8(self, v: i8) -> Result<(), Error> {
        self.serialize_i64(v as i64)
    }
    fn serialize_i16(self, v: i16) -> Result<(), Error> {
        self.serialize_i64(v as i64)
    }
    fn serialize_i32(self, v: i32) -> Result<(), Error> {
        self.serialize_i64(v as i64)
    }
    fn serialize_i64(self, v: i64) -> Result<(), Error> {
        self.out.push(Tok::I(v));
        Ok(())
    }
    fn serialize_u8(self, v: u8) -> Result<(), Error> {
        self.serialize_u64(v as u64)
    }
    fn serialize_u16(self, v: u16) -> Result<(), Error> {
        self.serialize_u64(v as u64)
    }
    fn serialize_u32(self, v: u32) -> Result<(), Error> {
        self.serialize_u64(v as u64)
    }
    fn serialize_u64(self, v: u64) -> Result<(), Error> {
        self.out.push(Tok::U(v));
        Ok(())
    }
    fn serialize_f32(self, v: f32) -> Result<(), Error> {
        self.serialize_f64(v as f64)
    }
    fn serialize_f64(self, v: f64) -> Result<(), Error> {
        self.out.push(Tok::F(v));
        Ok(())
    }
    fn serialize_char(self, v: char) -> Result<(), Error> {
        self.out.push(Tok::Char(v));
        Ok(())
    }
    fn serialize_str(self, v: &str) -> Result<(), Error> {
        self.out.push(Tok::Str(v.to_string()));
        Ok(())
    }
    fn serialize_bytes(self, v: &[u8]) -> Result<(), Error> {
        self.out.push(Tok::Bytes(v.to_vec()));
        Ok(())
    }
    fn serialize_none(self) -> Result<(), Error> {
        self.out.push(Tok::None);
        Ok(())
    }
    fn serialize_some<T: ?Sized + Serialize>(self, v: &T) -> Result<(), Error> {
        self.out.push(Tok::Some);
        v.serialize(self)
    }
    fn serialize_unit(self) -> Result<(), Error> {
        self.out.push(Tok::Unit);
        Ok(())
    }
    fn serialize_unit_struct(self, _name: &'static str) -> Result<(), Error> {
        Ok(())
    }
    fn serialize_unit_variant(self, _name: &'static str, idx: u32, _variant: &'static str) -> Result<(), Error> {
        self.out.push(Tok::Variant(idx));
        Ok(())
    }
    fn serialize_newtype_struct<T: ?Sized + Serialize>(self, _name: &'static str, v: &T) -> Result<(), Error> {
        v.serialize(self)
    }
    fn serialize_newtype_variant<T: ?Sized + Serialize>(self, _name: &'static str, idx: u32, _variant: &'static str, v: &T) -> Result<(), Error> {
        self.out.push(Tok::Variant(idx));
        v.serialize(self)
    }
    fn serialize_seq(self, len: Option<usize>) -> Result<Self, Error> {
        match len {
            Some(n) => {
                self.out.push(Tok::Len(n));
                Ok(self)
            }
            None => Err(Error("sequences of unknown length cannot be written".into())),
        }
    }
    fn serialize_tuple(self, _len: usize) -> Result<Self, Error> {
        Ok(self)
    }
    fn serialize_tuple_struct(self, _name: &'static str, _len: usize) -> Result<Self, Error> {
        Ok(self)
    }
    fn serialize_tuple_variant(self, _name: &'static str, idx: u32, _variant: &'static str, _len: usize) -> Result<Self, Error> {
        self.out.push(Tok::Variant(idx));
        Ok(self)
    }
    fn serialize_map(self, len: Option<usize>) -> Result<Self, Error> {
        match len {
            Some(n) => {
                self.out.push(Tok::Len(n));
                Ok(self)
            }
            None => Err(Error("maps of unknown length cannot be written".into())),
        }
    }
    fn serialize_struct(self, _name: &'static str, _len: usize) -> Result<Self, Error> {
        // nothing: neither the number of fields nor their names
        Ok(self)
    }
    fn serialize_struct_variant(self, _name: &'static str, idx: u32, _variant: &'static str, _len: usize) -> Result<Self, Error> {
        self.out.push(Tok::Variant(idx));
        Ok(self)
    }
}

macro_rules! compound {
    ($tr:ident, $f:ident) => {
        impl<'a> ser::$tr for &'a mut Ser {
            type Ok = ();
            type Error = Error;
            fn $f<T: ?Sized + Serialize>(&mut self, v: &T) -> Result<(), Error> {
                v.serialize(&mut **self)
            }
            fn end(self) -> Result<(), Error> {
                Ok(())
            }
        }
    };
}
compound!(SerializeSeq, serialize_element);
compound!(SerializeTuple, serialize_element);
compound!(SerializeTupleStruct, serialize_field);
compound!(SerializeTupleVariant, serialize_field);

impl<'a> ser::SerializeMap for &'a mut Ser {
    type Ok = ();
    type Error = Error;
    fn serialize_key<T: ?Sized + Serialize>(&mut self, k: &T) -> Result<(), Error> {
        k.serialize(&mut **self)
    }
    fn serialize_value<T: ?Sized + Serialize>(&mut self, v: &T) -> Result<(), Error> {
        v.serialize(&mut **self)
    }
    fn end(self) -> Result<(), Error> {
        Ok(())
    }
}
impl<'a> ser::SerializeStruct for &'a mut Ser {
    type Ok = ();
    type Error = Error;
    fn serialize_field<T: ?Sized + Serialize>(&mut self, _key: &'static str, v: &T) -> Result<(), Error> {
        v.serialize(&mut **self)
    }
    fn end(self) -> Result<(), Error> {
        Ok(())
    }
}
impl<'a> ser::SerializeStructVariant for &'a mut Ser {
    type Ok = ();
    type Error = Error;
    fn serialize_field<T: ?Sized + Serialize>(&mut self, _key: &'static str, v: &T) -> Result<(), Error> {
        v.serialize(&mut **self)
    }
    fn end(self) -> Result<(), Error> {
        Ok(())
    }
}

pub struct De<'t> {
    toks: &'t [Tok],
    pos: usize,
}

impl<'t> De<'t> {
    fn next(&mut self) -> Result<&'t Tok, Error> {
        match self.toks.get(self.pos) {
            Some(t) => {
                self.pos += 1;
                Ok(t)
            }
            None => Err(Error("the data end before the value is complete".into())),
        }
    }
    fn peek(&self) -> Option<&'t Tok> {
        self.toks.get(self.pos)
    }
    fn uint(&mut self) -> Result<u64, Error> {
        match self.next()? {
            Tok::U(v) => Ok(*v),
            other => Err(Error(format!("expected an unsigned number, found {:?}", other))),
        }
    }
    fn int(&mut self) -> Result<i64, Error> {
        match self.next()? {
            Tok::I(v) => Ok(*v),
            other => Err(Error(format!("expected a signed number, found {:?}", other))),
        }
    }
    fn len(&mut self) -> Result<usize, Error> {
        match self.next()? {
            Tok::Len(n) => Ok(*n),
            other => Err(Error(format!("expected a length prefix, found {:?}", other))),
        }
    }
}

struct Counted<'a, 't> {
    de: &'a mut De<'t>,
    left: usize,
}
impl<'de, 'a, 't> SeqAccess<'de> for Counted<'a, 't> {
    type Error = Error;
    fn next_element_seed<S: DeserializeSeed<'de>>(&mut self, seed: S) -> Result<Option<S::Value>, Error> {
        if self.left == 0 {
            return Ok(None);
        }
        self.left -= 1;
        seed.deserialize(&mut *self.de).map(Some)
    }
    fn size_hint(&self) -> Option<usize> {
        Some(self.left)
    }
}
impl<'de, 'a, 't> MapAccess<'de> for Counted<'a, 't> {
    type Error = Error;
    fn next_key_seed<K: DeserializeSeed<'de>>(&mut self, seed: K) -> Result<Option<K::Value>, Error> {
        if self.left == 0 {
            return Ok(None);
        }
        self.left -= 1;
        seed.deserialize(&mut *self.de).map(Some)
    }
    fn next_value_seed<V: DeserializeSeed<'de>>(&mut self, seed: V) -> Result<V::Value, Error> {
        seed.deserialize(&mut *self.de)
    }
    fn size_hint(&self) -> Option<usize> {
        Some(self.left)
    }
}
impl<'de, 'a, 't> EnumAccess<'de> for &'a mut De<'t> {
    type Error = Error;
    type Variant = Self;
    fn variant_seed<V: DeserializeSeed<'de>>(self, seed: V) -> Result<(V::Value, Self), Error> {
        let idx = match self.next()? {
            Tok::Variant(i) => *i,
            other => return Err(Error(format!("expected a variant index, found {:?}", other))),
        };
        let v = seed.deserialize(de::value::U32Deserializer::<Error>::new(idx))?;
        Ok((v, self))
    }
}
impl<'de, 'a, 't> VariantAccess<'de> for &'a mut De<'t> {
    type Error = Error;
    fn unit_variant(self) -> Result<(), Error> {
        Ok(())
    }
    fn newtype_variant_seed<S: DeserializeSeed<'de>>(self, seed: S) -> Result<S::Value, Error> {
        seed.deserialize(self)
    }
    fn tuple_variant<V: Visitor<'de>>(self, len: usize, visitor: V) -> Result<V::Value, Error> {
        visitor.visit_seq(Counted { de: self, left: len })
    }
    fn struct_variant<V: Visitor<'de>>(self, fields: &'static [&'static str], visitor: V) -> Result<V::Value, Error> {
        visitor.visit_seq(Counted { de: self, left: fields.len() })
    }
}

macro_rules! de_uint {
    ($name:ident, $visit:ident, $ty:ty) => {
        fn $name<V: Visitor<'de>>(self, visitor: V) -> Result<V::Value, Error> {
            let v = self.uint()?;
            if v > <$ty>::MAX as u64 {
                return Err(Error(format!("{} does not fit the field", v)));
            }
            visitor.$visit(v as $ty)
        }
    };
}
macro_rules! de_int {
    ($name:ident, $visit:ident, $ty:ty) => {
        fn $name<V: Visitor<'de>>(self, visitor: V) -> Result<V::Value, Error> {
            let v = self.int()?;
            if v > <$ty>::MAX as i64 || v < <$ty>::MIN as i64 {
                return Err(Error(format!("{} does not fit the field", v)));
            }
            visitor.$visit(v as $ty)
        }
    };
}

impl<'de, 'a, 't> de::Deserializer<'de> for &'a mut De<'t> {
    type Error = Error;
    fn is_human_readable(&self) -> bool {
        false
    }
    fn deserialize_any<V: Visitor<'de>>(self, _visitor: V) -> Result<V::Value, Error> {
        Err(Error("the format is not self-describing (deserialize_any)".into()))
    }
    fn deserialize_ignored_any<V: Visitor<'de>>(self, _visitor: V) -> Result<V::Value, Error> {
        Err(Error("the format is not self-describing (deserialize_ignored_any)".into()))
    }
    fn deserialize_identifier<V: Visitor<'de>>(self, _visitor: V) -> Result<V::Value, Error> {
        Err(Error("field names are not written (deserialize_identifier)".into()))
    }
    fn deserialize_bool<V: Visitor<'de>>(self, visitor: V) -> Result<V::Value, Error> {
        match self.next()? {
            Tok::Bool(b) => visitor.visit_bool(*b),
            other => Err(Error(format!("expected a bool, found {:?}", other))),
        }
    }
    de_uint!(deserialize_u8, visit_u8, u8);
    de_uint!(deserialize_u16, visit_u16, u16);
    de_uint!(deserialize_u32, visit_u32, u32);
    de_uint!(deserialize_u64, visit_u64, u64);
    de_int!(deserialize_i8, visit_i8, i8);
    de_int!(deserialize_i16, visit_i16, i16);
    de_int!(deserialize_i32, visit_i32, i32);
    de_int!(deserialize_i64, visit_i64, i64);
    fn deserialize_f32<V: Visitor<'de>>(self, visitor: V) -> Result<V::Value, Error> {
        self.deserialize_f64(visitor)
    }
    fn deserialize_f64<V: Visitor<'de>>(self, visitor: V) -> Result<V::Value, Error> {
        match self.next()? {
            Tok::F(x) => visitor.visit_f64(*x),
            other => Err(Error(format!("expected a float, found {:?}", other))),
        }
    }
    fn deserialize_char<V: Visitor<'de>>(self, visitor: V) -> Result<V::Value, Error> {
        match self.next()? {
            Tok::Char(c) => visitor.visit_char(*c),
            other => Err(Error(format!("expected a char, found {:?}", other))),
        }
    }
    fn deserialize_str<V: Visitor<'de>>(self, visitor: V) -> Result<V::Value, Error> {
        match self.next()? {
            // (not borrowed from the input: the visitor gets a transient &str)
            Tok::Str(s) => visitor.visit_str(s),
            other => Err(Error(format!("expected a string, found {:?}", other))),
        }
    }
    fn deserialize_string<V: Visitor<'de>>(self, visitor: V) -> Result<V::Value, Error> {
        match self.next()? {
            Tok::Str(s) => visitor.visit_string(s.clone()),
            other => Err(Error(format!("expected a string, found {:?}", other))),
        }
    }
    fn deserialize_bytes<V: Visitor<'de>>(self, visitor: V) -> Result<V::Value, Error> {
        match self.next()? {
            Tok::Bytes(b) => visitor.visit_bytes(b),
            other => Err(Error(format!("expected bytes, found {:?}", other))),
        }
    }
    fn deserialize_byte_buf<V: Visitor<'de>>(self, visitor: V) -> Result<V::Value, Error> {
        match self.next()? {
            Tok::Bytes(b) => visitor.visit_byte_buf(b.clone()),
            other => Err(Error(format!("expected bytes, found {:?}", other))),
        }
    }
    fn deserialize_option<V: Visitor<'de>>(self, visitor: V) -> Result<V::Value, Error> {
        match self.next()? {
            Tok::None => visitor.visit_none(),
            Tok::Some => visitor.visit_some(self),
            other => Err(Error(format!("expected an option tag, found {:?}", other))),
        }
    }
    fn deserialize_unit<V: Visitor<'de>>(self, visitor: V) -> Result<V::Value, Error> {
        match self.next()? {
            Tok::Unit => visitor.visit_unit(),
            other => Err(Error(format!("expected a unit, found {:?}", other))),
        }
    }
    fn deserialize_unit_struct<V: Visitor<'de>>(self, _name: &'static str, visitor: V) -> Result<V::Value, Error> {
        visitor.visit_unit()
    }
    fn deserialize_newtype_struct<V: Visitor<'de>>(self, _name: &'static str, visitor: V) -> Result<V::Value, Error> {
        visitor.visit_newtype_struct(self)
    }
    fn deserialize_seq<V: Visitor<'de>>(self, visitor: V) -> Result<V::Value, Error> {
        let n = self.len()?;
        if n > self.toks.len() - self.pos.min(self.toks.len()) && n > 0 && self.peek().is_none() {
            return Err(Error(format!("a sequence of {} elements is announced but the data end", n)));
        }
        visitor.visit_seq(Counted { de: self, left: n })
    }
    fn deserialize_tuple<V: Visitor<'de>>(self, len: usize, visitor: V) -> Result<V::Value, Error> {
        visitor.visit_seq(Counted { de: self, left: len })
    }
    fn deserialize_tuple_struct<V: Visitor<'de>>(self, _name: &'static str, len: usize, visitor: V) -> Result<V::Value, Error> {
        visitor.visit_seq(Counted { de: self, left: len })
    }
    fn deserialize_map<V: Visitor<'de>>(self, visitor: V) -> Result<V::Value, Error> {
        let n = self.len()?;
        visitor.visit_map(Counted { de: self, left: n })
    }
    fn deserialize_struct<V: Visitor<'de>>(self, _name: &'static str, fields: &'static [&'static str], visitor: V) -> Result<V::Value, Error> {
        // every field of the type, in declaration order
        visitor.visit_seq(Counted { de: self, left: fields.len() })
    }
    fn deserialize_enum<V: Visitor<'de>>(self, _name: &'static str, _variants: &'static [&'static str], visitor: V) -> Result<V::Value, Error> {
        visitor.visit_enum(self)
    }
}
