//! SIM-IO: single-threaded stream / policy / allocator simulator for seq_io.
//! usage: sim-io <PROPERTY-ID> [--tier quick|thorough] [--seed N] [--replay FILE] [--digest] [--runs N]

mod checks;
mod checks2;
mod drive;
mod gen;
mod judge;
mod model;
mod monitors;
mod scn;
mod seam;

use vcore::{Check, Opts};

fn make(id: &str) -> Option<Box<dyn Check>> {
    Some(match id {
        "C01" | "C02" | "C04" | "C05" | "C06" | "C13" | "C17" | "C19" | "C20" => {
            let id: &'static str = Box::leak(id.to_string().into_boxed_str());
            Box::new(checks::ReadCheck { id })
        }
        "C03" => Box::new(checks2::C03),
        "C09" => Box::new(checks2::C09),
        "C12" => Box::new(checks2::C12),
        "C14" => Box::new(checks2::C14),
        _ => return None,
    })
}

fn main() {
    let args: Vec<String> = std::env::args().collect();
    if args.len() < 2 {
        eprintln!("usage: sim-io <ID> [--tier quick|thorough] [--seed N] [--replay FILE]");
        std::process::exit(2);
    }
    let id = args[1].clone();
    let opts = match Opts::from_env_and_args(&args[2..]) {
        Ok(o) => o,
        Err(e) => {
            eprintln!("HARNESS-ERROR: {}", e);
            std::process::exit(2);
        }
    };
    let check = match make(&id) {
        Some(c) => c,
        None => {
            eprintln!("HARNESS-ERROR: sim-io does not serve {}", id);
            std::process::exit(2);
        }
    };
    let code = vcore::main_for(check.as_ref(), &opts);
    std::process::exit(code);
}
