//! SIM-IO: single-threaded stream / policy / allocator simulator for seq_io.
//! usage: sim-io <PROPERTY-ID> [--tier quick|thorough] [--seed N] [--replay FILE] [--digest] [--runs N]

mod alloc;
mod checks;
mod checks2;
mod checks3;
mod drive;
mod gen;
mod judge;
mod model;
mod monitors;
mod posfmt;
mod scn;
mod seam;

use vcore::{Check, Opts};

#[global_allocator]
static GLOBAL: alloc::CountingAlloc = alloc::CountingAlloc;

/// (quick runs, thorough multiplier) per property; sized for ~3 s quick / ~2-4 min thorough on 16 cores
pub fn budget_for(id: &str, tier: vcore::Tier) -> u64 {
    let (q, m): (u64, u64) = match id {
        "C01" => (1000000, 20),
        "C02" => (1000000, 40),
        "C03" => (400000, 40),
        "C04" => (500000, 40),
        "C05" => (500000, 24),
        "C06" => (100000, 12),
        "C09" => (500000, 40),
        "C10" => (600000, 40),
        "C11" => (600000, 40),
        "C12" => (300000, 40),
        "C13" => (500000, 40),
        "C14" => (80000, 40),
        "C17" => (1000000, 40),
        "C18" => (80000, 8),
        "C19" => (250000, 24),
        "C20" => (400000, 40),
        _ => (100_000, 20),
    };
    match tier {
        vcore::Tier::Quick => q,
        vcore::Tier::Thorough => q * m,
    }
}

fn make(id: &str) -> Option<Box<dyn Check>> {
    Some(match id {
        "C01" | "C02" | "C04" | "C05" | "C06" | "C13" | "C17" | "C19" | "C20" => {
            let id: &'static str = Box::leak(id.to_string().into_boxed_str());
            Box::new(checks::ReadCheck { id })
        }
        "C03" => Box::new(checks2::C03),
        "C09" => Box::new(checks2::C09),
        "C12" => Box::new(checks2::C12),
        "C14" => Box::new(checks2::C14),
        "C10" => Box::new(checks3::C10),
        "C11" => Box::new(checks3::C11),
        "C18" => Box::new(checks3::C18),
        _ => return None,
    })
}

fn main() {
    let args: Vec<String> = std::env::args().collect();
    if args.len() < 2 {
        eprintln!("usage: sim-io <ID> [--tier quick|thorough] [--seed N] [--replay FILE]");
        std::process::exit(2);
    }
    let id = args[1].clone();
    let opts = match Opts::from_env_and_args(&args[2..]) {
        Ok(o) => o,
        Err(e) => {
            eprintln!("HARNESS-ERROR: {}", e);
            std::process::exit(2);
        }
    };
    let check = match make(&id) {
        Some(c) => c,
        None => {
            eprintln!("HARNESS-ERROR: sim-io does not serve {}", id);
            std::process::exit(2);
        }
    };
    let code = vcore::main_for(check.as_ref(), &opts);
    std::process::exit(code);
}
