//! Invariant monitors that need the live, borrowed records: C13 (views agree),
//! C20 (iterator contracts over front/back step histories against a VecDeque
//! reference model), C19 (serde round trip), C11 (write_unchanged bytes).

use crate::drive::MonCtx;
use crate::model::RecObs;
use crate::scn::show;
use crate::seam::SimSink;
use seq_io::{fasta, fastq};
use std::borrow::Cow;
use std::collections::VecDeque;


/// C20: `nth(n)` / `skip(n)` with n >= remaining must consume the iterator: afterwards it keeps
/// reporting the end and its size hint is (0, Some(0)) or at least brackets 0.
macro_rules! check_overshoot {
    ($make:expr, $n:expr, $ctx:expr, $what:expr) => {{
        let n: usize = $n;
        for extra in 0..2usize {
            let mut it = $make;
            if it.nth(n + extra).is_some() {
                report($ctx, "C20.nth_overshoot", format!("{}: nth({}) on an iterator with {} items returned an item", $what, n + extra, n));
            }
            let (lo, _) = it.size_hint();
            if lo != 0 || it.next().is_some() || it.next().is_some() {
                report($ctx, "C20.nth_overshoot", format!("{}: after nth({}) reported the end of an iterator with {} items, it yields items again / size_hint lower bound {}", $what, n + extra, n, lo));
            }
            let mut sk = $make.skip(n + extra);
            if sk.next().is_some() || sk.next().is_some() {
                report($ctx, "C20.skip_overshoot", format!("{}: skip({}) over {} items yields an item", $what, n + extra, n));
            }
        }
        // skipping by as much as an index type can hold, on a fresh and on a partly consumed iterator
        for taken in 0..2usize {
            for big in [usize::MAX, usize::MAX - 1, usize::MAX / 2 + 1] {
                let mut it = $make;
                for _ in 0..taken {
                    let _ = it.next();
                }
                let got = it.nth(big).is_some();
                let after = it.next().is_some();
                let (lo, _) = it.size_hint();
                let mut it2 = $make;
                for _ in 0..taken {
                    let _ = it2.next();
                }
                let skipped = it2.skip(big).count();
                if got || after || lo != 0 || skipped != 0 {
                    report($ctx, "C20.nth_overshoot", format!("{}: {} items, {} taken from the front, then nth({}): item returned {}, another item afterwards {}, size_hint lower bound {}; skip({}).count() = {}", $what, n, taken, big, got, after, lo, big, skipped));
                }
            }
        }
        // internal iteration (count / last / fold may be overridden) of a fresh and of a partly
        // consumed iterator covers exactly what is left
        {
            let c = $make.count();
            let mut f = 0usize;
            $make.for_each(|_| f += 1);
            let mut it = $make;
            let took = it.next().is_some() as usize;
            let rest = it.fold(0usize, |a, _| a + 1);
            let has_last = $make.last().is_some();
            if c != n || f != n || took + rest != n || has_last != (n > 0) {
                report($ctx, "C20.internal_iteration", format!("{}: {} items, but count() = {}, for_each visits {}, next() + fold visit {} + {}, last().is_some() = {}", $what, n, c, f, took, rest, has_last));
            }
        }
        if n >= 2 {
            // nth within range consumes exactly n+1 items
            let mut it = $make;
            let k = n / 2;
            let _ = it.nth(k);
            let rest = it.count();
            if rest != n - k - 1 {
                report($ctx, "C20.nth_in_range", format!("{}: after nth({}) of {} items {} remain, expected {}", $what, k, n, rest, n - k - 1));
            }
        }
    }};
}

#[derive(serde_derive::Serialize, serde_derive::Deserialize)]
#[serde(tag = "kind", bound = "T: serde::Serialize + serde::de::DeserializeOwned")]
enum Tagged<T> {
    Item(T),
}
#[derive(serde_derive::Serialize, serde_derive::Deserialize)]
#[serde(untagged, bound = "T: serde::Serialize + serde::de::DeserializeOwned")]
enum Untagged<T> {
    Item(T),
}
#[derive(serde_derive::Serialize, serde_derive::Deserialize)]
#[serde(bound = "T: serde::Serialize + serde::de::DeserializeOwned")]
struct Flat<T> {
    n: u8,
    #[serde(flatten)]
    item: T,
}

/// C19: the value through every serde route we have: JSON text (self-describing, lengths are
/// ignored, byte strings are arrays of numbers), JSON through `serde_json::Value`, CBOR
/// (length-prefixed sequences and maps, native byte strings), CBOR through `ciborium::Value`, and
/// the value nested in an internally tagged enum, an untagged enum and a flattened struct field
/// (serde buffers the content there and replays it through its own deserializer) in both formats.
fn through_serde<T: serde::Serialize + serde::de::DeserializeOwned>(v: &T) -> Vec<(&'static str, Result<T, String>)> {
    fn json<A: serde::Serialize, B: serde::de::DeserializeOwned>(a: &A) -> Result<B, String> {
        serde_json::to_vec(a).map_err(|e| format!("serialisation failed: {}", e)).and_then(|b| serde_json::from_slice::<B>(&b).map_err(|e| format!("deserialisation failed: {}", e)))
    }
    fn cbor<A: serde::Serialize, B: serde::de::DeserializeOwned>(a: &A) -> Result<B, String> {
        let mut buf = vec![];
        ciborium::ser::into_writer(a, &mut buf).map_err(|e| format!("serialisation failed: {}", e)).and_then(|_| ciborium::de::from_reader::<B, _>(&buf[..]).map_err(|e| format!("deserialisation failed: {}", e)))
    }
    let mut out: Vec<(&'static str, Result<T, String>)> = vec![];
    out.push(("JSON", json::<T, T>(v)));
    out.push(("JSON value", serde_json::to_value(v).map_err(|e| format!("serialisation failed: {}", e)).and_then(|b| serde_json::from_value::<T>(b).map_err(|e| format!("deserialisation failed: {}", e)))));
    out.push(("CBOR", cbor::<T, T>(v)));
    // a positional format (bincode / postcard style: no field names, see posfmt.rs)
    out.push(("a positional format without field names", crate::posfmt::to_tokens(v).map_err(|e| format!("serialisation failed: {}", e)).and_then(|t| crate::posfmt::from_tokens::<T>(&t).map_err(|e| format!("deserialisation failed: {}", e)))));
    // the remaining routes for one value in four (chosen by the value itself)
    let sel = serde_json::to_vec(v).map(|b| b.iter().fold(b.len() as u64, |h, x| h.wrapping_mul(31).wrapping_add(*x as u64))).unwrap_or(0);
    if sel % 4 != 0 {
        return out;
    }
    out.push(("CBOR value", ciborium::Value::serialized(v).map_err(|e| format!("serialisation failed: {}", e)).and_then(|x| x.deserialized::<T>().map_err(|e| format!("deserialisation failed: {}", e)))));
    // wrappers take the value by reference on the way out and own it on the way back
    #[derive(serde_derive::Serialize)]
    #[serde(tag = "kind")]
    enum TaggedRef<'a, T: serde::Serialize> {
        Item(&'a T),
    }
    #[derive(serde_derive::Serialize)]
    #[serde(untagged)]
    enum UntaggedRef<'a, T: serde::Serialize> {
        Item(&'a T),
    }
    #[derive(serde_derive::Serialize)]
    struct FlatRef<'a, T: serde::Serialize> {
        n: u8,
        #[serde(flatten)]
        item: &'a T,
    }
    out.push(("JSON, in an internally tagged enum", json::<_, Tagged<T>>(&TaggedRef::Item(v)).map(|Tagged::Item(x)| x)));
    out.push(("CBOR, in an internally tagged enum", cbor::<_, Tagged<T>>(&TaggedRef::Item(v)).map(|Tagged::Item(x)| x)));
    out.push(("JSON, in an untagged enum", json::<_, Untagged<T>>(&UntaggedRef::Item(v)).map(|Untagged::Item(x)| x)));
    out.push(("CBOR, in an untagged enum", cbor::<_, Untagged<T>>(&UntaggedRef::Item(v)).map(|Untagged::Item(x)| x)));
    out.push(("JSON, flattened into a struct", json::<_, Flat<T>>(&FlatRef { n: 7, item: v }).map(|f| { let _ = f.n; f.item })));
    out.push(("CBOR, flattened into a struct", cbor::<_, Flat<T>>(&FlatRef { n: 7, item: v }).map(|f| f.item)));
    out
}

/// C19: `Deserialize::deserialize_in_place` (what derived impls of containing types call) into a
/// value that has been used before.
fn in_place<T: serde::Serialize + serde::de::DeserializeOwned>(v: &T, place: &mut T) -> Result<(), String> {
    let bytes = serde_json::to_vec(v).map_err(|e| format!("serialisation failed: {}", e))?;
    let mut de = serde_json::Deserializer::from_slice(&bytes);
    <T as serde::Deserialize>::deserialize_in_place(&mut de, place).map_err(|e| format!("deserialize_in_place failed: {}", e))
}

/// C19: serialisations that FAIL - the sink refuses a write in the middle of the value (near its
/// end, further in, in the middle). Their results are of no interest; whatever is serialised next on
/// this thread (the routes of the next value, a different one) must not see anything they left
/// behind (scratch buffers of hand-written Serialize impls). Called last for every value.
fn fail_midway<T: serde::Serialize>(v: &T, k: usize) {
    struct Failing {
        left: usize,
    }
    impl std::io::Write for Failing {
        fn write(&mut self, b: &[u8]) -> std::io::Result<usize> {
            if self.left == 0 {
                return Err(std::io::Error::new(std::io::ErrorKind::BrokenPipe, "sink closed"));
            }
            self.left -= 1;
            Ok(b.len())
        }
        fn flush(&mut self) -> std::io::Result<()> {
            Ok(())
        }
    }
    // number of write calls of a complete serialisation (serde_json issues one per token)
    let mut counter = Failing { left: usize::MAX };
    let _ = serde_json::to_writer(&mut counter, v);
    let n = usize::MAX - counter.left;
    for cut in [n / 2, n / 4, 14 + k % 17, 4 + k % 9, 1 + k % 5] {
        let _ = serde_json::to_writer(Failing { left: n.saturating_sub(cut) }, v);
    }
}

fn report(ctx: &mut MonCtx, rule: &str, detail: String) {
    if ctx.found.len() < 8 {
        ctx.found.push((rule.to_string(), detail));
    }
}

fn split_head(head: &[u8]) -> (&[u8], Option<&[u8]>) {
    match head.iter().position(|b| *b == b' ') {
        Some(i) => (&head[..i], Some(&head[i + 1..])),
        None => (head, None),
    }
}

macro_rules! check_head_views {
    ($rec:expr, $ctx:expr, $what:expr) => {{
        let head: Vec<u8> = $rec.head().to_vec();
        let (id, desc) = split_head(&head);
        if $rec.id_bytes() != id {
            report($ctx, "C13.id_bytes", format!("{}: id_bytes {:?} but head {:?}", $what, show($rec.id_bytes()), show(&head)));
        }
        if $rec.desc_bytes() != desc {
            report($ctx, "C13.desc_bytes", format!("{}: desc_bytes {:?} but head {:?}", $what, $rec.desc_bytes().map(show), show(&head)));
        }
        let (i2, d2) = $rec.id_desc_bytes();
        if i2 != id || d2 != desc {
            report($ctx, "C13.id_desc_bytes", format!("{}: id_desc_bytes disagrees with head {:?}", $what, show(&head)));
        }
        match (std::str::from_utf8(id), $rec.id()) {
            (Ok(a), Ok(b)) if a == b => {}
            (Err(_), Err(_)) => {}
            _ => report($ctx, "C13.id_str", format!("{}: id() does not mirror id_bytes for head {:?}", $what, show(&head))),
        }
        match (desc.map(std::str::from_utf8), $rec.desc()) {
            (None, None) => {}
            (Some(Ok(a)), Some(Ok(b))) if a == b => {}
            (Some(Err(_)), Some(Err(_))) => {}
            _ => report($ctx, "C13.desc_str", format!("{}: desc() does not mirror desc_bytes for head {:?}", $what, show(&head))),
        }
        match (std::str::from_utf8(&head), $rec.id_desc()) {
            (Ok(_), Ok((a, b))) => {
                if a.as_bytes() != id || b.map(|x| x.as_bytes()) != desc {
                    report($ctx, "C13.id_desc_str", format!("{}: id_desc() parts differ from id_bytes/desc_bytes for head {:?}", $what, show(&head)));
                }
            }
            (Err(_), Err(_)) => {}
            _ => report($ctx, "C13.id_desc_str", format!("{}: id_desc() success does not match UTF-8 validity of head {:?}", $what, show(&head))),
        }
    }};
}

// ---------------------------------------------------------------------------
// FASTA
// ---------------------------------------------------------------------------

pub fn fasta_record(rec: &fasta::RefRecord, o: &RecObs, ctx: &mut MonCtx) {
    use fasta::Record;
    if ctx.mon.views {
        check_head_views!(rec, ctx, "fasta RefRecord");
        let concat = &o.seq;
        let owned_seq = rec.owned_seq();
        if &owned_seq != concat {
            report(ctx, "C13.owned_seq", format!("owned_seq {:?} != concatenated seq_lines {:?}", show(&owned_seq), show(concat)));
        }
        let full = rec.full_seq();
        if full.as_ref() != &concat[..] {
            report(ctx, "C13.full_seq", format!("full_seq {:?} != concatenated seq_lines {:?}", show(&full), show(concat)));
        }
        let n = rec.num_seq_lines();
        let fwd = rec.seq_lines().count();
        let bwd = rec.seq_lines().rev().count();
        if n != fwd || n != bwd || n != o.lines.len() {
            report(ctx, "C13.num_seq_lines", format!("num_seq_lines {} forward count {} reverse count {}", n, fwd, bwd));
        }
        // the reverse view yields the same lines
        let mut rev: Vec<Vec<u8>> = rec.seq_lines().rev().map(|l| l.to_vec()).collect();
        rev.reverse();
        if rev != o.lines {
            report(ctx, "C13.seq_lines_rev", format!("seq_lines().rev() yields {:?}, forward iteration {:?}", rev.iter().map(|l| show(l)).collect::<Vec<_>>(), o.lines.iter().map(|l| show(l)).collect::<Vec<_>>()));
        }
        let borrowed = matches!(full, Cow::Borrowed(_));
        if borrowed != (fwd == 1) {
            report(ctx, "C13.full_seq_borrow", format!("full_seq borrowed={} with {} sequence lines", borrowed, fwd));
        }
        // raw seq differs only by line terminators
        let raw = rec.seq();
        // (the CR of the last line has already been removed by seq() itself)
        let mut stripped = vec![];
        let pieces: Vec<&[u8]> = raw.split(|b| *b == b'\n').collect();
        for (k, piece) in pieces.iter().enumerate() {
            let p = if k + 1 < pieces.len() && piece.last() == Some(&b'\r') { &piece[..piece.len() - 1] } else { piece };
            stripped.extend_from_slice(p);
        }
        if &stripped != concat {
            report(ctx, "C13.raw_seq", format!("seq() {:?} minus terminators != lines {:?}", show(raw), show(concat)));
        }
        let ow = rec.to_owned_record();
        if ow.head != o.head || &ow.seq != concat {
            report(ctx, "C13.to_owned", format!("to_owned_record ({:?},{:?}) != views ({:?},{:?})", show(&ow.head), show(&ow.seq), show(&o.head), show(concat)));
        }
        if Record::head(&ow) != &o.head[..] || Record::seq(&ow) != &concat[..] {
            report(ctx, "C13.owned_accessors", "OwnedRecord::head/seq differ from its fields".into());
        }
        check_head_views!(&ow, ctx, "fasta OwnedRecord");
        if ctx.mon.serde {
            serde_owned_fasta(&ow, ctx);
        }
    }
    if ctx.mon.iters {
        seq_lines_history(rec, o, ctx);
    }
    if ctx.mon.unchanged && ctx.fresh {
        let seed = ctx.rng.next_u64();
        let mut sink = SimSink::new(&sink_script(seed), None);
        match rec.write_unchanged(&mut sink) {
            Ok(()) => {
                ctx.sink_short += sink.short_writes as u64;
                ctx.sink_intr += sink.interrupts as u64;
                // C11 (FASTA part): the bytes re-parse to the identical record
                let mut rd = fasta::Reader::new(&sink.out[..]);
                match rd.next() {
                    Some(Ok(r2)) => {
                        let o2 = crate::drive::fa_obs(&r2);
                        if o2.head != o.head || o2.seq != o.seq {
                            report(ctx, "C11.fasta_unchanged_reparse", format!("write_unchanged output {:?} re-parses to a different record", show(&sink.out)));
                        }
                    }
                    _ => report(ctx, "C11.fasta_unchanged_reparse", format!("write_unchanged output {:?} does not parse", show(&sink.out))),
                }
                if rd.next().is_some() {
                    report(ctx, "C11.fasta_unchanged_reparse", format!("write_unchanged output {:?} parses to more than one record", show(&sink.out)));
                }
                ctx.unchanged.extend_from_slice(&sink.out);
            }
            Err(e) => report(ctx, "C11.unchanged_io", format!("write_unchanged failed on a sink that only interrupts: {}", e)),
        }
    }
}

pub fn sink_script(seed: u64) -> Vec<u32> {
    let r = vcore::Rng::new(seed);
    match r.below(4) {
        0 => vec![],
        1 => vec![1],
        2 => vec![r.range(1, 5) as u32, 0, r.range(1, 9) as u32],
        _ => (0..r.range(1, 5)).map(|_| r.range(0, 7) as u32).chain(std::iter::once(2)).collect(),
    }
}

pub fn fasta_owned(rec: &fasta::OwnedRecord, ctx: &mut MonCtx) {
    use fasta::Record;
    if ctx.mon.views {
        check_head_views!(rec, ctx, "fasta OwnedRecord");
        if Record::head(rec) != &rec.head[..] || Record::seq(rec) != &rec.seq[..] {
            report(ctx, "C13.owned_accessors", "OwnedRecord::head/seq differ from its fields".into());
        }
    }
    if ctx.mon.serde {
        serde_owned_fasta(rec, ctx);
    }
}

fn serde_owned_fasta(rec: &fasta::OwnedRecord, ctx: &mut MonCtx) {
    ctx.serde_checked += 1;
    for (fmt, r) in through_serde(rec) {
        match r {
            Ok(back) => {
                if &back != rec {
                    report(ctx, "C19.owned_roundtrip", format!("fasta OwnedRecord {:?}/{:?} changed by the {} round trip", show(&rec.head), show(&rec.seq), fmt));
                }
            }
            Err(e) => report(ctx, "C19.owned_roundtrip", format!("{}: {} (fasta OwnedRecord {:?}/{:?})", fmt, e, show(&rec.head), show(&rec.seq))),
        }
    }
}

pub fn fasta_set(set: &fasta::RecordSet, ctx: &mut MonCtx) {
    if ctx.mon.serde {
        ctx.serde_checked += 1;
        let orig: Vec<RecObs> = set.into_iter().map(|r| crate::drive::fa_obs(&r)).collect();
        for (fmt, r) in through_serde(set) {
            match r {
                Ok(back) => {
                    let again: Vec<RecObs> = back.into_iter().map(|r| crate::drive::fa_obs(&r)).collect();
                    if again != orig || back.len() != set.len() {
                        report(ctx, "C19.set_roundtrip", format!("fasta RecordSet with {} records iterates {} records / different contents after the {} round trip", orig.len(), again.len(), fmt));
                    }
                }
                Err(e) => report(ctx, "C19.set_roundtrip", format!("{}: {}", fmt, e)),
            }
        }
        // a clone must iterate identically as well
        let cl = set.clone();
        let again: Vec<RecObs> = cl.into_iter().map(|r| crate::drive::fa_obs(&r)).collect();
        if again != orig {
            report(ctx, "C19.set_clone", "cloned fasta RecordSet iterates differently".into());
        }
        // ... and so must a long-lived set that is overwritten with clone_from (it has held other,
        // possibly larger, sets before)
        let mut dst = ctx.fa_clone_dst.take().unwrap_or_default();
        dst.clone_from(set);
        let again: Vec<RecObs> = (&dst).into_iter().map(|r| crate::drive::fa_obs(&r)).collect();
        if again != orig || dst.len() != set.len() {
            report(ctx, "C19.set_clone_from", format!("fasta RecordSet::clone_from into a used set: {} records instead of {} / different contents", again.len(), orig.len()));
        }
        // the same long-lived set as the place of an in-place deserialisation
        match in_place(set, &mut dst) {
            Ok(()) => {
                let again: Vec<RecObs> = (&dst).into_iter().map(|r| crate::drive::fa_obs(&r)).collect();
                if again != orig || dst.len() != set.len() {
                    report(ctx, "C19.set_roundtrip", format!("fasta RecordSet deserialised in place into a used set: {} records instead of {} / different contents", again.len(), orig.len()));
                }
            }
            Err(e) => report(ctx, "C19.set_roundtrip", e),
        }
        ctx.fa_clone_dst = Some(dst);
        fail_midway(set, ctx.serde_checked as usize);
    }
    if ctx.mon.iters {
        let n = set.len();
        let mut it = set.into_iter();
        let mut remaining = n;
        loop {
            let (lo, hi) = it.size_hint();
            if lo > remaining || hi.map(|h| h < remaining).unwrap_or(false) {
                report(ctx, "C20.set_iter_size_hint", format!("fasta RecordSetIter size_hint ({},{:?}) does not bracket {} remaining", lo, hi, remaining));
                break;
            }
            if it.next().is_none() {
                if remaining != 0 {
                    report(ctx, "C20.set_iter_len", format!("fasta RecordSetIter ended with {} records missing", remaining));
                }
                break;
            }
            if remaining == 0 {
                report(ctx, "C20.set_iter_len", "fasta RecordSetIter yields more records than len()".into());
                break;
            }
            remaining -= 1;
        }
        for _ in 0..3 {
            if it.next().is_some() {
                report(ctx, "C20.set_iter_fused", "fasta RecordSetIter yields a record after reporting the end".into());
            }
        }
        check_overshoot!(set.into_iter(), n, ctx, "fasta RecordSetIter");
        ctx.iter_histories += 1;
    }
}

/// C20: one seeded front/back history on seq_lines() against a VecDeque model.
fn seq_lines_history(rec: &fasta::RefRecord, o: &RecObs, ctx: &mut MonCtx) {
    let mut model: VecDeque<&[u8]> = o.lines.iter().map(|l| &l[..]).collect();
    let mut it = rec.seq_lines();
    let max_steps = model.len() + 4;
    let mut desc = String::new();
    ctx.iter_histories += 1;
    for _ in 0..max_steps {
        // contracts before the step
        let rem = model.len();
        let l = it.len();
        let (lo, hi) = it.size_hint();
        if l != rem {
            report(ctx, "C20.seq_lines_len", format!("after steps [{}] len() = {} but {} lines remain (record with {} lines)", desc, l, rem, o.lines.len()));
            return;
        }
        if lo != rem || hi != Some(rem) {
            report(ctx, "C20.seq_lines_size_hint", format!("after steps [{}] size_hint = ({},{:?}) but {} lines remain", desc, lo, hi, rem));
            return;
        }
        if ctx.rng.chance(1, 7) {
            // finish by internal iteration (count / last / fold / rfold may be overridden by the
            // iterator): they consume exactly what is left
            let rest: Vec<Vec<u8>> = model.iter().map(|l| l.to_vec()).collect();
            let which = ctx.rng.below(5);
            let (name, ok) = match which {
                0 => ("count()", it.count() == rest.len()),
                1 => ("last()", it.last().map(|l| l.to_vec()) == rest.last().cloned()),
                2 => {
                    let mut v = vec![];
                    it.for_each(|l| v.push(l.to_vec()));
                    ("for_each()", v == rest)
                }
                3 => {
                    let mut v = it.rfold(vec![], |mut a, l| {
                        a.push(l.to_vec());
                        a
                    });
                    v.reverse();
                    ("rfold()", v == rest)
                }
                _ => {
                    let v: Vec<Vec<u8>> = it.rev().fold(vec![], |mut a, l| {
                        a.insert(0, l.to_vec());
                        a
                    });
                    ("rev().fold()", v == rest)
                }
            };
            ctx.iter_steps += 1;
            if !ok {
                report(ctx, "C20.seq_lines_internal_iteration", format!("after steps [{}] {} does not cover exactly the {} lines that were left (record with {} lines)", desc, name, rest.len(), o.lines.len()));
            }
            return;
        }
        let kind = ctx.rng.below(8);
        let (got, want) = if kind < 3 {
            desc.push('b');
            (it.next_back(), model.pop_back())
        } else if kind < 6 {
            desc.push('f');
            (it.next(), model.pop_front())
        } else if kind == 6 {
            // nth(k): skips k items, may overshoot the items that are left (now and then by as much
            // as an index type can hold)
            let k = if ctx.rng.chance(1, 10) { *ctx.rng.pick(&[usize::MAX, usize::MAX - 1, usize::MAX / 2 + 1, u32::MAX as usize]) } else { ctx.rng.below(3) as usize };
            desc.push_str(&format!("n{}", k));
            for _ in 0..k.min(model.len()) {
                model.pop_front();
            }
            (it.nth(k), model.pop_front())
        } else {
            let k = if ctx.rng.chance(1, 10) { *ctx.rng.pick(&[usize::MAX, usize::MAX - 1, usize::MAX / 2 + 1, u32::MAX as usize]) } else { ctx.rng.below(3) as usize };
            desc.push_str(&format!("N{}", k));
            for _ in 0..k.min(model.len()) {
                model.pop_back();
            }
            (it.nth_back(k), model.pop_back())
        };
        ctx.iter_steps += 1;
        if got != want {
            report(ctx, "C20.seq_lines_items", format!("after steps [{}] got {:?} want {:?}", desc, got.map(show), want.map(show)));
            return;
        }
    }
    // adaptors that rely on ExactSizeIterator / DoubleEndedIterator
    let n = o.lines.len();
    let rev_enum: Vec<(usize, Vec<u8>)> = rec.seq_lines().enumerate().rev().map(|(i, l)| (i, l.to_vec())).collect();
    let want: Vec<(usize, Vec<u8>)> = o.lines.iter().cloned().enumerate().rev().collect();
    if rev_enum != want {
        report(ctx, "C20.seq_lines_enumerate_rev", format!("enumerate().rev() gives indices {:?} for {} lines", rev_enum.iter().map(|x| x.0).collect::<Vec<_>>(), n));
        return;
    }
    if n >= 2 {
        // consume enumerate() from both ends: one from the front, then all from the back
        let mut e = rec.seq_lines().enumerate();
        let first = e.next().map(|x| x.0);
        let mut idx = vec![];
        while let Some((i, _)) = e.next_back() {
            idx.push(i);
        }
        let want: Vec<usize> = (1..n).rev().collect();
        if first != Some(0) || idx != want {
            report(ctx, "C20.seq_lines_enumerate_both_ends", format!("enumerate() from both ends gives first {:?} then back indices {:?}, want {:?}", first, idx, want));
            return;
        }
        // skip(k) then rev
        let k = 1 + ctx.rng.below(n as u64 - 1) as usize;
        let got: Vec<Vec<u8>> = rec.seq_lines().skip(k).rev().map(|l| l.to_vec()).collect();
        let want: Vec<Vec<u8>> = o.lines.iter().skip(k).rev().cloned().collect();
        if got != want {
            report(ctx, "C20.seq_lines_skip_rev", format!("skip({}).rev() gives {} items, want {}", k, got.len(), want.len()));
            return;
        }
        // advance one, then zip with a counter from the back: relies on len() of the advanced iterator
        let mut a = rec.seq_lines();
        a.next();
        let z: Vec<(Vec<u8>, usize)> = a.zip(0..n - 1).rev().map(|(l, i)| (l.to_vec(), i)).collect();
        let want: Vec<(Vec<u8>, usize)> = o.lines.iter().skip(1).cloned().zip(0..n - 1).rev().collect();
        if z != want {
            report(ctx, "C20.seq_lines_zip_rev", "advanced seq_lines().zip(range).rev() pairs lines with wrong indices".into());
            return;
        }
    }
    check_overshoot!(rec.seq_lines(), n, ctx, "SeqLines");
    let collected: Vec<Vec<u8>> = rec.seq_lines().map(|l| l.to_vec()).collect();
    if collected != o.lines {
        report(ctx, "C20.seq_lines_collect", "collect() differs from line list".into());
    }
}

// ---------------------------------------------------------------------------
// FASTQ
// ---------------------------------------------------------------------------

pub fn fastq_record(rec: &fastq::RefRecord, o: &RecObs, ctx: &mut MonCtx) {
    use fastq::Record;
    if ctx.mon.views {
        check_head_views!(rec, ctx, "fastq RefRecord");
        let ow = rec.to_owned_record();
        if ow.head != o.head || ow.seq != o.seq || ow.qual != o.qual {
            report(ctx, "C13.to_owned", "fastq to_owned_record differs from RefRecord views".into());
        }
        if Record::head(&ow) != &o.head[..] || Record::seq(&ow) != &o.seq[..] || Record::qual(&ow) != &o.qual[..] {
            report(ctx, "C13.owned_accessors", "fastq OwnedRecord accessors differ from its fields".into());
        }
        check_head_views!(&ow, ctx, "fastq OwnedRecord");
        if ctx.mon.serde {
            serde_owned_fastq(&ow, ctx);
        }
    }
    if ctx.mon.unchanged && ctx.fresh {
        let seed = ctx.rng.next_u64();
        let mut sink = SimSink::new(&sink_script(seed), None);
        match rec.write_unchanged(&mut sink) {
            Ok(()) => {
                ctx.sink_short += sink.short_writes as u64;
                ctx.sink_intr += sink.interrupts as u64;
                ctx.unchanged.extend_from_slice(&sink.out);
            }
            Err(e) => report(ctx, "C11.unchanged_io", format!("write_unchanged failed on a sink that only interrupts: {}", e)),
        }
    }
}

pub fn fastq_owned(rec: &fastq::OwnedRecord, ctx: &mut MonCtx) {
    use fastq::Record;
    if ctx.mon.views {
        check_head_views!(rec, ctx, "fastq OwnedRecord");
        if Record::head(rec) != &rec.head[..] || Record::seq(rec) != &rec.seq[..] || Record::qual(rec) != &rec.qual[..] {
            report(ctx, "C13.owned_accessors", "fastq OwnedRecord accessors differ from its fields".into());
        }
    }
    if ctx.mon.serde {
        serde_owned_fastq(rec, ctx);
    }
}

fn serde_owned_fastq(rec: &fastq::OwnedRecord, ctx: &mut MonCtx) {
    ctx.serde_checked += 1;
    for (fmt, r) in through_serde(rec) {
        match r {
            Ok(back) => {
                if &back != rec {
                    report(ctx, "C19.owned_roundtrip", format!("fastq OwnedRecord {:?} changed by the {} round trip", show(&rec.head), fmt));
                }
            }
            Err(e) => report(ctx, "C19.owned_roundtrip", format!("{}: {} (fastq OwnedRecord {:?})", fmt, e, show(&rec.head))),
        }
    }
}

pub fn fastq_set(set: &fastq::RecordSet, ctx: &mut MonCtx) {
    if ctx.mon.serde {
        ctx.serde_checked += 1;
        let orig: Vec<RecObs> = set.into_iter().map(|r| crate::drive::fq_obs(&r)).collect();
        for (fmt, r) in through_serde(set) {
            match r {
                Ok(back) => {
                    let again: Vec<RecObs> = back.into_iter().map(|r| crate::drive::fq_obs(&r)).collect();
                    if again != orig || back.len() != set.len() {
                        report(ctx, "C19.set_roundtrip", format!("fastq RecordSet with {} records iterates {} records / different contents after the {} round trip", orig.len(), again.len(), fmt));
                    }
                }
                Err(e) => report(ctx, "C19.set_roundtrip", format!("{}: {}", fmt, e)),
            }
        }
        let cl = set.clone();
        let again: Vec<RecObs> = cl.into_iter().map(|r| crate::drive::fq_obs(&r)).collect();
        if again != orig {
            report(ctx, "C19.set_clone", "cloned fastq RecordSet iterates differently".into());
        }
        let mut dst = ctx.fq_clone_dst.take().unwrap_or_default();
        dst.clone_from(set);
        let again: Vec<RecObs> = (&dst).into_iter().map(|r| crate::drive::fq_obs(&r)).collect();
        if again != orig || dst.len() != set.len() {
            report(ctx, "C19.set_clone_from", format!("fastq RecordSet::clone_from into a used set: {} records instead of {} / different contents", again.len(), orig.len()));
        }
        match in_place(set, &mut dst) {
            Ok(()) => {
                let again: Vec<RecObs> = (&dst).into_iter().map(|r| crate::drive::fq_obs(&r)).collect();
                if again != orig || dst.len() != set.len() {
                    report(ctx, "C19.set_roundtrip", format!("fastq RecordSet deserialised in place into a used set: {} records instead of {} / different contents", again.len(), orig.len()));
                }
            }
            Err(e) => report(ctx, "C19.set_roundtrip", e),
        }
        ctx.fq_clone_dst = Some(dst);
        fail_midway(set, ctx.serde_checked as usize);
    }
    if ctx.mon.iters {
        let n = set.len();
        let mut it = set.into_iter();
        let mut remaining = n;
        loop {
            let (lo, hi) = it.size_hint();
            if lo > remaining || hi.map(|h| h < remaining).unwrap_or(false) {
                report(ctx, "C20.set_iter_size_hint", format!("fastq RecordSetIter size_hint ({},{:?}) does not bracket {} remaining", lo, hi, remaining));
                break;
            }
            if it.next().is_none() {
                if remaining != 0 {
                    report(ctx, "C20.set_iter_len", format!("fastq RecordSetIter ended with {} records missing", remaining));
                }
                break;
            }
            if remaining == 0 {
                report(ctx, "C20.set_iter_len", "fastq RecordSetIter yields more records than len()".into());
                break;
            }
            remaining -= 1;
        }
        for _ in 0..3 {
            if it.next().is_some() {
                report(ctx, "C20.set_iter_fused", "fastq RecordSetIter yields a record after reporting the end".into());
            }
        }
        check_overshoot!(set.into_iter(), n, ctx, "fastq RecordSetIter");
        ctx.iter_histories += 1;
    }
}
