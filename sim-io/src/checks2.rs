//! C03 (differential across configurations), C14 (fault enumeration),
//! C09 (growth policy), C12 (LF vs CRLF renderings).

use crate::checks::*;
use crate::drive::{drive, Out, RunLog};
use crate::gen::*;
use crate::judge::{judge, judge_with_cursors, JudgeOpts};
use crate::model::{self, RecObs};
use crate::scn::*;
use crate::seam::policy_eval;
use serde_derive::{Deserialize, Serialize};
use serde_json::{json, Value};
use vcore::{Check, Rng, RunResult, Stats, Tier, Violation};

fn bad_scn() -> RunResult {
    RunResult {
        violations: vec![Violation::new("harness.bad_scenario", "scenario does not parse".into())],
        log_hash: 0,
    }
}

// ===========================================================================
// C03
// ===========================================================================

pub struct C03;

#[derive(Debug, Clone, PartialEq)]
struct Flat {
    recs: Vec<(RecObs, Option<(u64, u64)>)>,
    /// first end-of-input / error outcome: (number of records delivered before it, outcome)
    terminal: Option<(usize, Out)>,
    /// something other than a record arrived after the terminal outcome
    after_terminal: Vec<Out>,
    broken: Option<String>,
}

fn flatten(log: &RunLog) -> Flat {
    let mut f = Flat { recs: vec![], terminal: None, after_terminal: vec![], broken: None };
    let mut push_out = |f: &mut Flat, o: &Out, pos: Option<(u64, u64)>| match o {
        Out::Rec(r) => {
            if f.terminal.is_some() {
                f.after_terminal.push(o.clone());
            }
            f.recs.push((r.clone(), pos));
        }
        Out::Set(v) => {
            for r in v {
                f.recs.push((r.clone(), None));
            }
            if f.terminal.is_some() && !v.is_empty() {
                f.after_terminal.push(Out::Noop);
            }
        }
        Out::End | Out::Err(_, _) => {
            if f.terminal.is_none() {
                f.terminal = Some((f.recs.len(), o.clone()));
            } else if let Out::Err(_, _) = o {
                f.after_terminal.push(o.clone());
            }
        }
        Out::Panic(m) | Out::Hang(m) => f.broken = Some(m.clone()),
        _ => {}
    };
    for s in &log.steps {
        match &s.out {
            Out::Drained(v) => {
                for o in v {
                    push_out(&mut f, o, None);
                }
            }
            o => {
                let pos = if matches!(s.op, Op::Next | Op::OwnedNext) { s.pos } else { None };
                push_out(&mut f, o, pos);
            }
        }
    }
    f
}

fn strip_lines(r: &RecObs) -> RecObs {
    // owned records carry no line structure
    RecObs { head: r.head.clone(), lines: vec![], seq: r.seq.clone(), qual: r.qual.clone() }
}

fn cmp_rec(a: &RecObs, b: &RecObs) -> bool {
    if a.lines.is_empty() != b.lines.is_empty() {
        strip_lines(a) == strip_lines(b)
    } else {
        a == b
    }
}

pub fn gen_c03(rng: &Rng, tier: Tier) -> ReadScn {
    let (max_recs, max_noise) = match tier {
        Tier::Quick => (6, 80),
        Tier::Thorough => (14, 300),
    };
    let fmt = if rng.chance(1, 2) { Fmt::Fasta } else { Fmt::Fastq };
    if rng.chance(1, 3000) {
        // a large buffer filled byte-wise with an interruption before every read, against a
        // quiet configuration; or the default 64 KiB buffer with short reads against a small one
        let big = rng.chance(1, 3);
        let input = many_small_records(rng, fmt, if big { rng.range(70_000, 200_000) } else { rng.range(2000, 6000) });
        let a = if big {
            Cfg { cap: 65536, policy: PolicySpec::Std, script: vec![rng.range(512, 9000) as u32], cuts: vec![], faults: vec![], intr_burst: None, lift: None, pause: None }
        } else {
            storm_cfg(rng)
        };
        let b = Cfg { cap: rng.range(64, 400), policy: PolicySpec::Std, script: vec![], cuts: vec![], faults: vec![], intr_burst: None, lift: None, pause: None };
        let n = input.iter().filter(|x| **x == if fmt == Fmt::Fasta { b'>' } else { b'@' }).count();
        return ReadScn { fmt, input, cfgs: vec![a, b], ops: ops_next_to_end(n), mon: Monitors::default(), profile: if big { "default_capacity_short_reads".into() } else { "interrupt_storm".into() } };
    }
    if rng.chance(1, 800) {
        // one record beyond 64 KiB / 1 MiB / 8 MiB: a capacity around that size against another one
        let (input, class, t) = huge_input(rng, fmt);
        let a = huge_cfg(rng, t, input.len());
        let mut b = huge_cfg(rng, t, input.len());
        if rng.chance(1, 2) {
            b.cap = if rng.chance(1, 2) { rng.range(3, 400) } else { input.len() + 2 };
        }
        let n = input.iter().filter(|x| **x == if fmt == Fmt::Fasta { b'>' } else { b'@' }).count() + 3;
        let ops = if rng.chance(1, 4) { vec![Op::ReadSet(0); n] } else { ops_next_to_end(n) };
        return ReadScn { fmt, input, cfgs: vec![a, b], ops, mon: Monitors::default(), profile: class };
    }
    if rng.chance(1, 12) {
        // limited policies whose limit just permits the needed size: valid inputs only, the
        // largest raw record extent is known from the generator's own record boundaries
        let input = match fmt {
            Fmt::Fasta => {
                let a = gen_afasta(rng, max_recs, false);
                render_fasta(rng, &a, *rng.pick(&[Ending::Lf, Ending::Crlf]), rng.chance(3, 4), 0, 0)
            }
            Fmt::Fastq => {
                let a = gen_afastq(rng, max_recs, false);
                render_fastq(rng, &a, *rng.pick(&[Ending::Lf, Ending::Crlf]), rng.chance(3, 4), 0)
            }
        };
        let need = rough_record_lens(&input).into_iter().max().unwrap_or(1) + 2;
        let n_cfg = rng.range(2, 3);
        let cfgs: Vec<Cfg> = (0..n_cfg)
            .map(|_| {
                let mut c = gen_cfg(rng, &input, true);
                // the doubling chain from this capacity, cut right after it can hold `need`
                let mut limit = c.cap.max(3);
                while limit < need {
                    limit *= 2;
                }
                c.policy = match rng.below(3) {
                    0 => PolicySpec::DoubleLimit(limit),
                    1 => PolicySpec::DoubleUntilLimited(limit + 1, limit),
                    _ => PolicySpec::DoubleUntilLimited(limit + 1, limit + rng.range(0, 3)),
                };
                c
            })
            .collect();
        let m = model::build(fmt, &input);
        let n = m.items.len();
        // no exact-count batches: they legitimately need more than one record's size
        let ops = if rng.chance(1, 2) {
            ops_next_to_end(n)
        } else {
            let mut o = gen_history(rng, OpMix { next: 3, owned: 1, set: 3, exact: 0, seek: 0, iter: 0 }, 1 + rng.small(8), n, false);
            for _ in 0..n + 2 {
                o.push(if rng.chance(1, 3) { Op::ReadSet(0) } else { Op::Next });
            }
            o
        };
        return ReadScn { fmt, input, cfgs, ops, mon: Monitors::default(), profile: "limit_just_permits".into() };
    }
    if rng.chance(1, 12) {
        // the documented use of limited policies: read until the reader refuses, lift the limit
        // (set_policy on the used reader), go on. The policy finally in force permits everything,
        // so the outcome must not depend on where (or whether) the refusal happened
        let (input, class) = any_input(rng, fmt, max_recs, max_noise);
        let n_cfg = rng.range(2, 3);
        let cfgs: Vec<Cfg> = (0..n_cfg)
            .map(|i| {
                let mut c = gen_cfg(rng, &input, true);
                if i > 0 || rng.chance(1, 2) {
                    c.policy = gen_refusing_policy(rng, c.cap);
                }
                c.lift = Some(gen_permissive_policy(rng, input.len()));
                c
            })
            .collect();
        let m = model::build(fmt, &input);
        let n = m.items.len();
        let ops = match rng.below(3) {
            0 => ops_next_to_end(n),
            1 => (0..n + 2).map(|_| if rng.chance(1, 3) { Op::OwnedNext } else { Op::Next }).collect(),
            _ => {
                let mut o = gen_history(rng, OpMix { next: 3, owned: 1, set: 3, exact: 0, seek: 0, iter: 0 }, 1 + rng.small(8), n, false);
                for _ in 0..n + 2 {
                    o.push(if rng.chance(1, 3) { Op::ReadSet(0) } else { Op::Next });
                }
                o
            }
        };
        return ReadScn { fmt, input, cfgs, ops, mon: Monitors::default(), profile: format!("{}/limit_lifted", class) };
    }
    let (input, class) = any_input(rng, fmt, max_recs, max_noise);
    let n_cfg = rng.range(2, 4);
    let mut cfgs: Vec<Cfg> = (0..n_cfg).map(|_| gen_cfg(rng, &input, true)).collect();
    let mut anchored = false;
    if rng.chance(1, 3) {
        // anchor: one configuration in which nothing ever straddles the buffer end (the whole input
        // fits and arrives in one piece), so a divergence that needs "complete in the buffer" on one
        // side and "cut" on the other does not depend on luck with the drawn capacities
        cfgs[0].cap = input.len() + rng.range(1, 4);
        cfgs[0].script = vec![];
        cfgs[0].cuts = vec![];
        cfgs[0].intr_burst = None;
        anchored = true;
    }
    let m = model::build(fmt, &input); // only used to size the history
    let n = m.items.len();
    let ops = match rng.below(4) {
        0 => ops_next_to_end(n),
        1 => {
            // exact-count histories: compared call by call
            let mix = OpMix { next: 3, owned: 1, set: 0, exact: 4, seek: 0, iter: 0 };
            let mut o = gen_history(rng, mix, 1 + rng.small(12), n, false);
            for _ in 0..rng.small(3) {
                let at = rng.below(o.len() as u64 + 1) as usize;
                o.insert(at, Op::SeekSeen(rng.small(6)));
            }
            for _ in 0..n + 2 {
                o.push(Op::Next);
            }
            o
        }
        2 => {
            let mix = OpMix { next: 3, owned: 1, set: 4, exact: 2, seek: 0, iter: 0 };
            gen_history(rng, mix, 1 + rng.small(12), n, true)
        }
        _ => {
            let k = rng.range(0, n);
            let mut o: Vec<Op> = (0..k).map(|_| if rng.chance(1, 3) { Op::OwnedNext } else { Op::Next }).collect();
            o.push(Op::Drain);
            o
        }
    };
    let profile = if anchored { format!("{}/anchored", class) } else { class.to_string() };
    ReadScn { fmt, input, cfgs, ops, mon: Monitors::default(), profile }
}

pub fn run_c03(scn: &ReadScn, st: &mut Stats) -> RunResult {
    let logs: Vec<RunLog> = scn.cfgs.iter().map(|c| drive(scn, c, &vec![])).collect();
    let mut h = 0u64;
    let mut nt = false;
    for (c, l) in scn.cfgs.iter().zip(&logs) {
        nt |= record_stats(scn, c, l, st).is_some();
        h = vcore::mix(h, l.log_hash);
    }
    if nt {
        st.set_insert("nontrivial", vcore::mix(h, scn.input.len() as u64));
    }
    st.count("step.configurations_compared", scn.cfgs.len() as u64);
    if scn.profile.ends_with("/anchored") {
        st.probe("probe.whole_input_anchor");
    }
    let mut v: Vec<Violation> = vec![];
    let has_plain_set = scn.ops.iter().any(|o| matches!(o, Op::ReadSet(_)));
    let a = &logs[0];
    let fa = flatten(a);
    if let Some(m) = &fa.broken {
        v.push(Violation::new("C03.panic_or_hang", format!("configuration 0: {}", m)));
    }
    for (bi, b) in logs.iter().enumerate().skip(1) {
        if !v.is_empty() {
            break;
        }
        let fb = flatten(b);
        if let Some(m) = &fb.broken {
            v.push(Violation::new("C03.panic_or_hang", format!("configuration {}: {}", bi, m)));
            break;
        }
        let what = format!("configurations 0 {:?} and {} {:?}", short_cfg(&scn.cfgs[0]), bi, short_cfg(&scn.cfgs[bi]));
        if !has_plain_set {
            // call by call
            if a.steps.len() != b.steps.len() {
                v.push(Violation::new("C03.step_count", format!("{}: {} vs {} steps executed", what, a.steps.len(), b.steps.len())));
                break;
            }
            for (i, (sa, sb)) in a.steps.iter().zip(&b.steps).enumerate() {
                if sa.out != sb.out {
                    v.push(Violation::new("C03.outcome_differs", format!("{}: step {} {:?} gives {} vs {}", what, i, sa.op, brief(&sa.out), brief(&sb.out))));
                    break;
                }
                if sa.pos != sb.pos && !matches!(sa.out, Out::End | Out::Err(_, _) | Out::Noop) {
                    v.push(Violation::new("C03.position_differs", format!("{}: after step {} {:?} ({}) position {:?} vs {:?}", what, i, sa.op, brief(&sa.out), sa.pos, sb.pos)));
                    break;
                }
            }
        } else {
            // batch boundaries legitimately depend on the capacity: compare the flattened record
            // stream and the terminal outcome
            let n = fa.recs.len().min(fb.recs.len());
            for i in 0..n {
                if !cmp_rec(&fa.recs[i].0, &fb.recs[i].0) {
                    v.push(Violation::new("C03.record_differs", format!("{}: record {} of the stream differs", what, i)));
                    break;
                }
                if let (Some(pa), Some(pb)) = (fa.recs[i].1, fb.recs[i].1) {
                    if pa != pb {
                        v.push(Violation::new("C03.position_differs", format!("{}: position of record {}: {:?} vs {:?}", what, i, pa, pb)));
                        break;
                    }
                }
            }
            if v.is_empty() {
                match (&fa.terminal, &fb.terminal) {
                    (Some((ia, oa)), Some((ib, ob))) => {
                        if ia != ib || oa != ob {
                            v.push(Violation::new("C03.terminal_differs", format!("{}: after {} records {} vs after {} records {}", what, ia, brief(oa), ib, brief(ob))));
                        }
                    }
                    (Some((ia, oa)), None) => {
                        if fb.recs.len() > *ia {
                            v.push(Violation::new("C03.terminal_differs", format!("{}: one reports {} after {} records, the other delivers {} records", what, brief(oa), ia, fb.recs.len())));
                        }
                    }
                    (None, Some((ib, ob))) => {
                        if fa.recs.len() > *ib {
                            v.push(Violation::new("C03.terminal_differs", format!("{}: one reports {} after {} records, the other delivers {} records", what, brief(ob), ib, fa.recs.len())));
                        }
                    }
                    (None, None) => {}
                }
            }
        }
    }
    if !v.is_empty() {
        let f = features(scn, &scn.cfgs[0]);
        for x in v.iter_mut() {
            x.features = f.clone();
        }
    }
    RunResult { violations: v, log_hash: h }
}

fn short_cfg(c: &Cfg) -> String {
    format!("cap={} policy={:?} script={:?} cuts={:?}", c.cap, c.policy, c.script, c.cuts)
}

pub fn brief(o: &Out) -> String {
    let s = format!("{:?}", o);
    if s.len() > 260 {
        format!("{}…", &s[..s.char_indices().take_while(|x| x.0 < 260).last().map(|x| x.0).unwrap_or(0)])
    } else {
        s
    }
}

impl Check for C03 {
    fn id(&self) -> &str {
        "C03"
    }
    fn engine(&self) -> &str {
        "sim-io"
    }
    fn budget(&self, tier: Tier) -> u64 {
        crate::budget_for(self.id(), tier)
    }
    fn generate(&self, rng: &Rng, tier: Tier, _idx: u64) -> Value {
        serde_json::to_value(gen_c03(rng, tier)).unwrap()
    }
    fn run(&self, scn: &Value, st: &mut Stats) -> RunResult {
        match parse_scn(scn) {
            Some(s) if s.cfgs.len() >= 2 => run_c03(&s, st),
            _ => bad_scn(),
        }
    }
    fn shrink(&self, scn: &Value) -> Vec<Value> {
        match parse_scn(scn) {
            Some(s) => shrink_read(&s).into_iter().filter(|x| x.cfgs.len() >= 2).map(|x| serde_json::to_value(x).unwrap()).collect(),
            None => vec![],
        }
    }
    fn rule_text(&self) -> String {
        "one (input, history) executed under 2..4 independently drawn configurations (capacity x growing policy {Std, DoubleUntil(k), +1, +k, x3, jump, DoubleUntilLimited(k, large)} x chunk script incl. 1-byte and Interrupted x forced cut offsets; in one scenario in three the first configuration holds the whole input and gets it in one piece); no reference model: full observation logs compared pairwise (call by call for histories of Next/OwnedNext/ReadSetExact/SeekSeen incl. positions and error messages; flattened record stream + terminal outcome for histories with plain ReadSet, whose batch boundaries legitimately depend on the capacity). Non-trivial: a configuration refilled, grew or was interrupted; distinct = distinct (input, event log) hash.".into()
    }
    fn assumptions(&self) -> Vec<String> {
        vec!["differential oracle only: a defect that shows identically under every configuration is invisible here (C01/C02 cover that)".into()]
    }
    fn components(&self) -> Value {
        components()
    }
    fn sample(&self, scn: &Value) -> Value {
        abbreviate(scn)
    }
    fn risky(&self, scn: &Value) -> bool {
        scenario_is_risky(scn)
    }
    fn expected_probes(&self) -> Vec<&'static str> {
        vec!["refill", "growth", "leading_blank_exceeds_capacity", "whole_input_anchor"]
    }
}

// ===========================================================================
// C14 — fault enumeration
// ===========================================================================

pub struct C14;

#[derive(Serialize, Deserialize, Clone, Debug, PartialEq)]
pub struct C14Scn {
    pub base: ReadScn,
    /// salt choosing the error kind per call index
    pub salt: usize,
    /// restrict the enumeration to these call indices (set by the minimiser)
    #[serde(default)]
    pub only_k: Option<Vec<usize>>,
    /// also compare the run with all Interrupted entries removed from the script
    #[serde(default)]
    pub check_interrupted: bool,
}

const C14_ONLY: &[&str] = &["fault_swallowed", "fault_as_format_error", "spurious_io", "fabricated_record", "fabricated_record_in_set", "panic", "hang", "seek_error", "not_end_after_end"];

pub fn gen_c14(rng: &Rng, tier: Tier) -> C14Scn {
    let (max_recs, max_noise) = match tier {
        Tier::Quick => (5, 60),
        Tier::Thorough => (10, 200),
    };
    let fmt = if rng.chance(1, 2) { Fmt::Fasta } else { Fmt::Fastq };
    if rng.chance(1, 400) {
        let input = many_small_records(rng, fmt, rng.range(2000, 5000));
        let cfg = storm_cfg(rng);
        let n = input.iter().filter(|x| **x == if fmt == Fmt::Fasta { b'>' } else { b'@' }).count();
        return C14Scn {
            base: ReadScn { fmt, input, cfgs: vec![cfg], ops: ops_next_to_end(n), mon: Monitors::default(), profile: "interrupt_storm".into() },
            salt: rng.below(64) as usize,
            only_k: Some(vec![0, 1]),
            check_interrupted: true,
        };
    }
    let (input, class) = any_input(rng, fmt, max_recs, max_noise);
    let mut cfg = gen_cfg(rng, &input, true);
    if rng.chance(1, 3) {
        // dense interruption patterns (0..90 %)
        let n = rng.range(2, 10);
        let dens = rng.range(0, 9) as u64;
        cfg.script = (0..n).map(|_| if rng.chance(dens, 10) { 0 } else { 1 + rng.small(9) as u32 }).collect();
        if cfg.script.iter().all(|x| *x == 0) {
            cfg.script.push(2);
        }
    }
    let m = model::build(fmt, &input);
    let n = m.items.len();
    let mix = OpMix { next: 5, owned: 1, set: 2, exact: 2, seek: 2, iter: 0 };
    let ops = if rng.chance(1, 2) { ops_next_to_end(n) } else { gen_history(rng, mix, 1 + rng.small(14), n, true) };
    C14Scn {
        base: ReadScn { fmt, input, cfgs: vec![cfg], ops, mon: Monitors::default(), profile: class.into() },
        salt: rng.below(64) as usize,
        only_k: None,
        check_interrupted: true,
    }
}

fn same_obs(a: &RunLog, b: &RunLog, upto: usize) -> Option<String> {
    for i in 0..upto.min(a.steps.len()).min(b.steps.len()) {
        if a.steps[i].out != b.steps[i].out || a.steps[i].pos != b.steps[i].pos {
            return Some(format!("step {} {:?}: {} / pos {:?} vs {} / pos {:?}", i, a.steps[i].op, brief(&a.steps[i].out), a.steps[i].pos, brief(&b.steps[i].out), b.steps[i].pos));
        }
    }
    None
}

pub fn run_c14(scn: &C14Scn, st: &mut Stats) -> RunResult {
    let base = &scn.base;
    let m = model::build(base.fmt, &base.input);
    let targets = seek_targets(&m);
    let cfg0 = &base.cfgs[0];
    let clean = drive(base, cfg0, &targets);
    if let Some(h) = record_stats(base, cfg0, &clean, st) {
        st.set_insert("nontrivial", h);
    }
    let mut hash = clean.log_hash;
    let mut v: Vec<Violation> = vec![];
    let jo = JudgeOpts { prop: "C14", check_pos: false, mon_prefixes: &[], check_msg: false, only: Some(C14_ONLY), exact_after_seek: false };

    // --- interrupted reads are invisible
    if scn.check_interrupted && (cfg0.script.iter().any(|x| *x == 0) || cfg0.intr_burst.is_some()) {
        let mut c2 = cfg0.clone();
        c2.script.retain(|x| *x != 0);
        c2.intr_burst = None;
        let quiet = drive(base, &c2, &targets);
        st.count("step.interrupt_pattern_comparisons", 1);
        if quiet.steps.len() != clean.steps.len() {
            v.push(Violation::new("C14.interrupted_visible", format!("{} steps with interruptions, {} without", clean.steps.len(), quiet.steps.len())));
        } else if let Some(d) = same_obs(&clean, &quiet, clean.steps.len()) {
            v.push(Violation::new("C14.interrupted_visible", format!("observation differs between the run with Interrupted reads and the run without: {}", d)));
        }
        for s in &clean.steps {
            if let Out::Err(crate::model::ErrObs::Io(k), _) = &s.out {
                if k == "Interrupted" {
                    v.push(Violation::new("C14.interrupted_visible", format!("{:?} returned Io(Interrupted)", s.op)));
                }
            }
        }
    }

    // --- a failure at the k-th source call, for every k
    let n_calls = clean.reads as usize + clean.seeks as usize;
    let ks: Vec<usize> = match &scn.only_k {
        Some(k) => k.clone(),
        None => {
            if n_calls <= 96 {
                (0..n_calls).collect()
            } else {
                // 96 spread over the run including first and last
                let mut ks: Vec<usize> = (0..96).map(|i| i * (n_calls - 1) / 95).collect();
                ks.dedup();
                ks
            }
        }
    };
    for k in ks {
        if v.len() >= 3 {
            break;
        }
        let mut fault = Fault { call: k, kind: FAULT_KINDS[(k + scn.salt) % FAULT_KINDS.len()].to_string(), payload: ["", "", "msg", "nested:Interrupted", "nested:BrokenPipe", "seqio", "os:29", "os:5", "os:11", "os:28"][(k + scn.salt / 8) % 10].to_string() };
        if (k + scn.salt / 5) % 4 == 0 {
            // one fault point in four: should call k be a seek, it fails with kind Interrupted
            // (a read gets kind Other instead - an interrupted *read* is retried, see above)
            fault.kind = crate::seam::SEEK_INTERRUPTED.to_string();
            fault.payload = String::new();
        }
        let mut c = cfg0.clone();
        c.faults = vec![fault];
        let log = drive(base, &c, &targets);
        // the label that has to come back: the kind and, for OS errors, the raw code - as recorded
        // by the seam when the fault fired
        let label = log.steps.iter().find_map(|s| s.seam.faults.first().cloned()).unwrap_or_default();
        let kind = label.as_str();
        if kind == "Interrupted" {
            st.probe("probe.seek_failed_with_interrupted");
        }
        hash = vcore::mix(hash, log.log_hash);
        st.count("step.fault_points_enumerated", 1);
        st.count(&format!("fault.io_error.{}", kind), log.faults);
        st.count("step.source_reads", log.reads);
        if log.faults == 0 {
            // call k was not reached (cannot happen: the prefix is deterministic)
            v.push(Violation::new("C14.harness_fault_not_reached", format!("fault at call {} did not fire", k)));
            continue;
        }
        let fs = log.steps.iter().position(|s| !s.seam.faults.is_empty());
        let fs = match fs {
            Some(x) => x,
            None => continue,
        };
        st.set_insert("states", vcore::mix(fs as u64, k as u64 ^ 0x77));
        // everything before the failing call is the fault-free prefix
        if let Some(d) = same_obs(&clean, &log, fs) {
            v.push(Violation::new("C14.prefix_differs", format!("fault {} at source call {}: before the failing call: {}", kind, k, d)));
            continue;
        }
        // the failing call itself returns Io(kind); afterwards the rule of DESIGN 4.4
        let mut vv = judge(&m, base, &log, &jo);
        for x in vv.iter_mut() {
            x.detail = format!("fault {} at source call {} (during step {}): {}", kind, k, fs, x.detail);
            x.features.insert(format!("k:{}", k));
        }
        match &log.steps[fs].out {
            Out::Err(crate::model::ErrObs::Io(got), _) if got == kind => {}
            Out::Panic(_) | Out::Hang(_) => {}
            other => {
                if !vv.iter().any(|x| x.rule.contains("fault_")) {
                    vv.push(Violation::new("C14.fault_not_returned", format!("fault {} at source call {}: step {} {:?} returned {} instead of Io({})", kind, k, fs, log.steps[fs].op, brief(other), kind)));
                }
            }
        }
        v.extend(vv);
    }
    if !v.is_empty() {
        let f = features(base, cfg0);
        for x in v.iter_mut() {
            let extra = std::mem::take(&mut x.features);
            x.features = f.clone();
            x.features.extend(extra);
        }
    }
    RunResult { violations: v, log_hash: hash }
}

impl Check for C14 {
    fn id(&self) -> &str {
        "C14"
    }
    fn engine(&self) -> &str {
        "sim-io"
    }
    fn level(&self) -> &str {
        "fault_enumeration"
    }
    fn budget(&self, tier: Tier) -> u64 {
        crate::budget_for(self.id(), tier)
    }
    fn generate(&self, rng: &Rng, tier: Tier, _idx: u64) -> Value {
        serde_json::to_value(gen_c14(rng, tier)).unwrap()
    }
    fn run(&self, scn: &Value, st: &mut Stats) -> RunResult {
        match serde_json::from_value::<C14Scn>(scn.clone()) {
            Ok(s) if !s.base.cfgs.is_empty() => run_c14(&s, st),
            _ => bad_scn(),
        }
    }
    fn shrink(&self, scn: &Value) -> Vec<Value> {
        let s: C14Scn = match serde_json::from_value(scn.clone()) {
            Ok(s) => s,
            Err(_) => return vec![],
        };
        let mut out = vec![];
        for b in shrink_read(&s.base) {
            let mut c = s.clone();
            c.base = b;
            out.push(serde_json::to_value(c).unwrap());
        }
        if s.check_interrupted {
            let mut c = s.clone();
            c.check_interrupted = false;
            out.push(serde_json::to_value(c).unwrap());
        }
        out
    }
    fn rule_text(&self) -> String {
        "per sampled (input, capacity, chunk script, history incl. seeks): one fault-free run counts the N source calls (reads and seeks); then for EVERY k < N (all when N <= 96, else 96 spread incl. first and last) the run is repeated with an error of kind FAULT_KINDS[(k+salt) mod 8] injected at call k (one point in four: kind Interrupted if call k is a seek). Oracle: observations before the failing call equal the fault-free log; the operation during which call k happened returns Io(kind) (never end of input, a record, a truncation or format error); afterwards end / error / genuine records in ascending order. Separately any Interrupted pattern (0..90 % density) must give the identical observation log as the same script without interruptions. evaluations = sampled scenarios; coverage.sim_steps.fault_points_enumerated = total injected runs. Non-trivial: the fault-free run refilled/grew; distinct by (input, event log).".into()
    }
    fn assumptions(&self) -> Vec<String> {
        vec![
            "complete over k for each sampled scenario (up to 96 calls), sampled over scenarios".into(),
            "a *read* failing with Interrupted is an interruption (retried, invisible); a *seek* failing with that kind is 'any other error raised during a seek' and has to come back as Io(Interrupted): one fault point in four uses that kind if the call is a seek".into(),
        ]
    }
    fn components(&self) -> Value {
        components()
    }
    fn sample(&self, scn: &Value) -> Value {
        let mut v = scn.clone();
        v["base"] = abbreviate(&scn["base"]);
        v
    }
    fn risky(&self, scn: &Value) -> bool {
        scenario_is_risky(scn)
    }
    fn expected_probes(&self) -> Vec<&'static str> {
        vec!["refill", "growth", "seek_real", "seek_failed_with_interrupted"]
    }
}

// ===========================================================================
// C09 — growth policy
// ===========================================================================

pub struct C09;

#[derive(Serialize, Deserialize, Clone, Debug, PartialEq)]
pub struct C09Scn {
    #[serde(default)]
    pub read: Option<ReadScn>,
    /// policy arithmetic sample: (spec, current sizes)
    #[serde(default)]
    pub arith: Option<(PolicySpec, Vec<usize>)>,
}

const C09_ONLY: &[&str] = &[
    "spurious_buffer_limit", "refusal_swallowed", "refusal_as_format_error", "wrong_record", "wrong_batch", "premature_end", "wrong_error", "panic", "hang", "exact_count", "empty_set",
];

pub fn gen_c09(rng: &Rng, tier: Tier) -> C09Scn {
    if rng.chance(1, 12) {
        // policy arithmetic (pure function; the simulator adds nothing here)
        let t = *rng.pick(&[1usize, 2, 7, 64, 1 << 10, 1 << 23, (1 << 23) + 1]);
        let l = t * rng.range(1, 5) + rng.range(0, 3);
        let spec = match rng.below(3) {
            0 => PolicySpec::Std,
            1 => PolicySpec::DoubleUntil(t),
            _ => PolicySpec::DoubleUntilLimited(t, l),
        };
        let mut sizes = vec![0, 1, 2, 3, t.saturating_sub(1), t, t + 1, l.saturating_sub(1), l, l + 1, l / 2, l / 2 + 1, (1 << 23) - 1, 1 << 23, (1 << 23) + 1];
        for _ in 0..6 {
            sizes.push(rng.below(1 << 25) as usize);
        }
        return C09Scn { read: None, arith: Some((spec, sizes)) };
    }
    let (max_recs, max_noise) = match tier {
        Tier::Quick => (6, 60),
        Tier::Thorough => (14, 200),
    };
    let fmt = if rng.chance(1, 2) { Fmt::Fasta } else { Fmt::Fastq };
    // mostly valid inputs whose record lengths straddle the capacity
    let (input, class) = if rng.chance(4, 5) {
        match fmt {
            Fmt::Fasta => {
                let a = gen_afasta(rng, max_recs, false);
                (render_fasta(rng, &a, *rng.pick(&[Ending::Lf, Ending::Crlf]), rng.chance(3, 4), rng.small(3), 0), "valid")
            }
            Fmt::Fastq => {
                let a = gen_afastq(rng, max_recs, false);
                (render_fastq(rng, &a, *rng.pick(&[Ending::Lf, Ending::Crlf]), rng.chance(3, 4), rng.small(2)), "valid")
            }
        }
    } else {
        any_input(rng, fmt, max_recs, max_noise)
    };
    let mut cfg = gen_cfg(rng, &input, true);
    let lens = rough_record_lens(&input);
    if !lens.is_empty() && rng.chance(1, 2) {
        let l = *rng.pick(&lens);
        cfg.cap = (l as i64 + rng.range(0, 4) as i64 - 2).max(3) as usize;
    }
    cfg.policy = match rng.below(8) {
        0 => PolicySpec::Std,
        1 => PolicySpec::DoubleUntil(rng.range(1, 32)),
        2 => PolicySpec::DoubleUntilLimited(rng.range(1, 16), rng.range(4, 64)),
        3 => PolicySpec::Add(1),
        4 => PolicySpec::Refuse,
        5 => PolicySpec::RefuseAfter(rng.range(0, 3)),
        6 => PolicySpec::DoubleLimit(rng.range(4, 80)),
        _ if rng.chance(1, 3) => PolicySpec::Stall(rng.range(1, 4)),
        _ => PolicySpec::Add(rng.range(2, 9)),
    };
    let m = model::build(fmt, &input);
    let n = m.items.len();
    let exact = if rng.chance(1, 4) { 3 } else { 0 };
    let mix = OpMix { next: 5, owned: 1, set: 3, exact, seek: 1, iter: 0 };
    let mut ops = gen_history(rng, mix, 1 + rng.small(12), n, true);
    if rng.chance(1, 3) {
        let at = rng.below(ops.len() as u64 + 1) as usize;
        let p = if rng.chance(1, 2) { gen_permissive_policy(rng, input.len()) } else { gen_refusing_policy(rng, cfg.cap) };
        ops.insert(at, Op::SetPolicy(p));
    }
    let mut profile = class.to_string();
    let mut input = input;
    if rng.chance(1, 80) {
        // sizes of several KiB that are not page-aligned: growth by +k / doubling-with-limit from
        // a capacity of 3000..6000 for one record of 1..3 capacities
        let cap = rng.range(3000, 6000);
        let big = rng.range(cap - 10, 3 * cap);
        let mut v = vec![];
        let seqs = [rng.range(0, 60), big, rng.range(0, 60)];
        for (i, l) in seqs.iter().enumerate() {
            match fmt {
                Fmt::Fasta => {
                    v.extend_from_slice(format!(">r{}\n", i).as_bytes());
                    v.extend(std::iter::repeat(b'A').take(*l));
                    v.push(b'\n');
                }
                Fmt::Fastq => {
                    v.extend_from_slice(format!("@r{}\n", i).as_bytes());
                    v.extend(std::iter::repeat(b'A').take(*l / 2));
                    v.extend_from_slice(b"\n+\n");
                    v.extend(std::iter::repeat(b'I').take(*l / 2));
                    v.push(b'\n');
                }
            }
        }
        input = v;
        cfg.cap = cap;
        cfg.cuts = vec![];
        cfg.script = if rng.chance(1, 2) { vec![] } else { vec![rng.range(500, 5000) as u32] };
        cfg.policy = match rng.below(4) {
            0 => PolicySpec::Add(rng.range(1000, 3000)),
            1 => PolicySpec::DoubleUntilLimited(rng.range(500, 3000), rng.range(5000, 12000)),
            2 => PolicySpec::DoubleUntil(rng.range(1000, 5000)),
            _ => PolicySpec::DoubleLimit(rng.range(6000, 20000)),
        };
        ops = ops_next_to_end(3);
        profile = "kib_sizes".into();
    }
    if (tier == Tier::Thorough && rng.chance(1, 3000)) || rng.chance(1, 60_000) {
        // a buffer beyond the default 64 KiB: records of 40 and 100 KiB in a 128 KiB buffer (they
        // fit after moving), then one that really needs growth
        let cap = 128 * 1024 + rng.range(0, 64);
        let lens = [rng.range(30_000, 50_000), rng.range(90_000, 110_000), rng.range(20_000, 60_000), rng.range(140_000, 200_000)];
        let mut v = vec![];
        for (i, l) in lens.iter().enumerate() {
            match fmt {
                Fmt::Fasta => {
                    v.extend_from_slice(format!(">r{}\n", i).as_bytes());
                    v.extend(std::iter::repeat(b'A').take(*l));
                    v.push(b'\n');
                }
                Fmt::Fastq => {
                    v.extend_from_slice(format!("@r{}\n", i).as_bytes());
                    v.extend(std::iter::repeat(b'A').take(*l / 2));
                    v.extend_from_slice(b"\n+\n");
                    v.extend(std::iter::repeat(b'I').take(*l / 2));
                    v.push(b'\n');
                }
            }
        }
        input = v;
        cfg.cap = cap;
        cfg.cuts = vec![];
        cfg.intr_burst = None;
        cfg.script = if rng.chance(1, 2) { vec![] } else { vec![rng.range(4000, 70_000) as u32] };
        cfg.policy = if rng.chance(1, 2) { PolicySpec::Std } else { PolicySpec::DoubleLimit(600_000) };
        ops = ops_next_to_end(4);
        profile = "beyond_64k".into();
    }
    if rng.chance(1, 600) {
        // several KiB of small records that all fit, read by next() with record-set reads (and a
        // seek now and then) thrown in at random places - in particular when only the incomplete
        // tail of the buffer is left: nothing here ever needs a larger buffer
        // (kept small: every step re-iterates the filled record set to see that it did not change)
        let cap = rng.range(4096, 6000);
        input = many_small_records(rng, fmt, cap + rng.range(cap / 4, cap));
        let n_rec = input.iter().filter(|b| **b == if fmt == Fmt::Fasta { b'>' } else { b'@' }).count();
        let p = rng.range(4, 40);
        ops = (0..n_rec + 2)
            .map(|i| {
                if rng.chance(1, p as u64) {
                    Op::ReadSet(0)
                } else if rng.chance(1, 400) {
                    Op::SeekRec(rng.below(i as u64 + 1) as usize)
                } else {
                    Op::Next
                }
            })
            .collect();
        cfg.cap = cap;
        cfg.cuts = vec![];
        cfg.intr_burst = None;
        cfg.script = if rng.chance(1, 2) { vec![] } else { vec![rng.range(500, 9000) as u32] };
        cfg.policy = if rng.chance(1, 2) { PolicySpec::Std } else { PolicySpec::Refuse };
        profile = "kib_all_fit".into();
    }
    if rng.chance(1, 500) {
        // a full buffer that ends with: ... small records | one tiny record | a record cut by the
        // buffer end. A record-set read that starts at the tiny record collects almost nothing
        // before it has to make room; the cut record fits after moving, so nothing may grow
        let cap = *rng.pick(&[rng.range(4096, 9000), 20480, 65536, 65536]);
        let t: &[u8] = if rng.chance(1, 4) { b"\r\n" } else { b"\n" };
        let rec = |v: &mut Vec<u8>, i: usize, len: usize| match fmt {
            Fmt::Fasta => {
                v.extend_from_slice(format!(">s{}", i).as_bytes());
                v.extend_from_slice(t);
                if len > 0 {
                    v.extend(std::iter::repeat(b"ACGT"[i % 4]).take(len));
                    v.extend_from_slice(t);
                }
            }
            Fmt::Fastq => {
                v.extend_from_slice(format!("@s{}", i).as_bytes());
                v.extend_from_slice(t);
                v.extend(std::iter::repeat(b"ACGT"[i % 4]).take(len));
                v.extend_from_slice(t);
                v.push(b'+');
                v.extend_from_slice(t);
                v.extend(std::iter::repeat(b'I').take(len));
                v.extend_from_slice(t);
            }
        };
        let mut v = vec![];
        let mut i = 0;
        let cut_len = rng.range(40, 400);
        // small records up to a little before the buffer end
        let reserve = rng.range(12, 30);
        while v.len() + 120 + reserve < cap {
            rec(&mut v, i, rng.range(0, 40));
            i += 1;
        }
        // pad with one record so that exactly `reserve` bytes (tiny record + start of the cut one) are left
        let room = cap - v.len() - reserve;
        let overhead = { let mut w = vec![]; rec(&mut w, i, 1); w.len() - if fmt == Fmt::Fasta { 1 } else { 2 } };
        if room > overhead {
            rec(&mut v, i, if fmt == Fmt::Fasta { room - overhead } else { (room - overhead) / 2 });
            i += 1;
        }
        let n_before = i;
        // the tiny record, then the one that crosses the buffer end
        match fmt {
            Fmt::Fasta => {
                v.extend_from_slice(b">");
                v.extend_from_slice(t);
            }
            Fmt::Fastq => {
                v.extend_from_slice(b"@");
                v.extend_from_slice(t);
                v.extend_from_slice(t);
                v.push(b'+');
                v.extend_from_slice(t);
                v.extend_from_slice(t);
            }
        }
        rec(&mut v, i + 1, cut_len);
        i += 2;
        for _ in 0..rng.range(0, 6) {
            rec(&mut v, i, rng.range(0, 40));
            i += 1;
        }
        input = v;
        let d = *rng.pick(&[0usize, 0, 0, 1, 3]);
        ops = (0..n_before.saturating_sub(d)).map(|_| Op::Next).collect();
        ops.push(Op::ReadSet(0));
        for _ in 0..8 {
            ops.push(if rng.chance(1, 3) { Op::ReadSet(0) } else { Op::Next });
        }
        cfg.cap = cap;
        cfg.cuts = vec![];
        cfg.intr_burst = None;
        cfg.script = if rng.chance(1, 2) { vec![] } else { vec![rng.range(500, 9000) as u32] };
        cfg.policy = if rng.chance(1, 2) { PolicySpec::Std } else { PolicySpec::Refuse };
        profile = "tiny_before_buffer_end".into();
    }
    if rng.chance(1, 400) {
        // opened by path with an explicit small capacity: the policy must still be the only way to a
        // larger buffer
        cfg.cuts = vec![];
        cfg.script = vec![];
        cfg.intr_burst = None;
        cfg.cap = rng.range(3, 40);
        ops = ops_next_to_end(n);
        profile = crate::drive::PATH_PROFILE.into();
    }
    // thorough: long inputs of small records that all fit — must never grow
    if tier == Tier::Thorough && rng.chance(1, 40) && fmt == Fmt::Fasta {
        let k = rng.range(500, 4000);
        let mut v = vec![];
        for i in 0..k {
            v.extend_from_slice(format!(">r{}\nACGT\n", i % 97).as_bytes());
        }
        input = v;
        cfg.cap = rng.range(12, 40);
        ops = ops_next_to_end(k);
        profile = "long_all_fit".into();
    }
    if rng.chance(1, 10) && input.len() < 4000 {
        // a policy that refuses its first 1..3 requests and then agrees (a budget raised by
        // somebody else): every refusal comes back as BufferLimit, and the reader has to be exactly
        // where it was when the policy finally agrees - by repeated next() calls, or inside one
        // owned-record iterator that is polled on after the errors
        cfg.policy = PolicySpec::RefuseFirst(rng.range(1, 4));
        let lens = rough_record_lens(&input);
        if !lens.is_empty() {
            // smaller than some record, so that growth is needed
            cfg.cap = (*rng.pick(&lens) / rng.range(1, 3)).max(3);
        }
        let n = model::build(fmt, &input).items.len();
        ops = if rng.chance(1, 2) {
            (0..2 * n + 8).map(|_| Op::Next).collect()
        } else {
            let k = rng.range(0, n + 1);
            let mut o: Vec<Op> = (0..k).map(|_| Op::Next).collect();
            o.push(Op::Drain);
            o
        };
        profile.push_str("/refuse_first");
    }
    C09Scn { read: Some(ReadScn { fmt, input, cfgs: vec![cfg], ops, mon: Monitors::default(), profile }), arith: None }
}

fn arith_expect(spec: &PolicySpec, cur: usize) -> Option<usize> {
    // the documented rule, written independently of src/policy.rs
    let (t, limit) = match spec {
        PolicySpec::Std => (1usize << 23, None),
        PolicySpec::DoubleUntil(t) => (*t, None),
        PolicySpec::DoubleUntilLimited(t, l) => (*t, Some(*l)),
        _ => return None,
    };
    let new = if cur < t { cur * 2 } else { cur + t };
    match limit {
        Some(l) if new > l => None,
        _ => Some(new),
    }
}

pub fn run_c09(scn: &C09Scn, st: &mut Stats) -> RunResult {
    let mut v: Vec<Violation> = vec![];
    if let Some((spec, sizes)) = &scn.arith {
        st.count("step.policy_arithmetic_points", sizes.len() as u64);
        for &cur in sizes {
            let got = policy_eval(spec, 0, 0, cur);
            let want = arith_expect(spec, cur);
            if got != want {
                v.push(Violation::new("C09.policy_arithmetic", format!("{:?}.grow_to({}) = {:?}, documented rule gives {:?}", spec, cur, got, want)));
                break;
            }
        }
        st.set_insert("nontrivial", vcore::hash_str(&format!("{:?}{:?}", spec, sizes)));
        return RunResult { violations: v, log_hash: 1 };
    }
    let rs = match &scn.read {
        Some(r) if !r.cfgs.is_empty() => r,
        _ => return bad_scn(),
    };
    let m = model::build(rs.fmt, &rs.input);
    let targets = seek_targets(&m);
    let cfg = &rs.cfgs[0];
    let log = drive(rs, cfg, &targets);
    if let Some(h) = record_stats(rs, cfg, &log, st) {
        st.set_insert("nontrivial", h);
    }
    let jo = JudgeOpts { prop: "C09", check_pos: false, mon_prefixes: &[], check_msg: false, only: Some(C09_ONLY), exact_after_seek: false };
    let (mut jv, cursors) = judge_with_cursors(&m, rs, &log, &jo);
    v.append(&mut jv);
    // (a) chain: every grow_to argument is the capacity the reader has at that time
    let mut cap = cfg.cap.max(3);
    for (i, (arg, res)) in log.all_grows.iter().enumerate() {
        if *arg != cap {
            v.push(Violation::new("C09.chain", format!("grow_to call {} was passed {} but the capacity is {} (initial {}, calls so far {:?})", i, arg, cap, cfg.cap, &log.all_grows[..i])));
            break;
        }
        if let Some(n) = res {
            cap = *n;
        }
    }
    // capacity really adopted: a fill that starts from an empty buffer (first fill / real seek)
    // requests exactly the current capacity
    {
        let mut cap = cfg.cap.max(3);
        let mut first = true;
        for s in &log.steps {
            let fresh = (first && s.seam.reads > 0) || (s.seam.seeks > 0 && matches!(s.out, Out::SeekOk));
            if fresh {
                if let Some(req) = s.seam.first_req {
                    // only "more than granted" is a violation: how a reader splits a fill into read
                    // calls is its own business, but it must not own more space than the policy allowed
                    if req > cap && s.seam.grows.is_empty() {
                        v.push(Violation::new("C09.capacity_adopted", format!("{:?}: a fill of the empty buffer requested {} bytes but the capacity granted so far is only {}", s.op, req, cap)));
                        break;
                    }
                }
            }
            if s.seam.reads > 0 {
                first = false;
            }
            for (_, res) in &s.seam.grows {
                if let Some(n) = res {
                    cap = *n;
                }
            }
        }
    }
    // (a') nothing but the policy enlarges the buffer: a record that was delivered lay in the
    // buffer as a whole, so its raw extent cannot exceed the capacity granted so far
    {
        let mut cap = cfg.cap.max(3);
        for (si, s) in log.steps.iter().enumerate() {
            for (_, res) in &s.seam.grows {
                if let Some(n) = res {
                    cap = cap.max(*n);
                }
            }
            if let (Out::Rec(_), Some(Some(c))) = (&s.out, cursors.get(si)) {
                if matches!(s.op, Op::Next | Op::OwnedNext) {
                    let item = &m.items[*c];
                    // the terminator of the last line need not be buffered at the end of the input
                    let e = (item.end - item.byte) as usize;
                    let e = if item.end as usize == rs.input.len() { e.saturating_sub(2) } else { e };
                    if e > cap && item.is_rec() {
                        v.push(Violation::new("C09.larger_than_granted", format!("step {} {:?}: a record of {} raw bytes was delivered although the capacity is {} and the policy has granted no more (grow_to calls so far: {})", si, s.op, e, cap, log.all_grows.len())));
                        break;
                    }
                }
            }
        }
    }
    // (b) necessity: histories without exact-count batches, fault-free
    let has_exact = rs.ops.iter().any(|o| matches!(o, Op::ReadSetExact(_, _)));
    if !has_exact && cfg.faults.is_empty() {
        for (si, s) in log.steps.iter().enumerate() {
            if s.seam.grows.is_empty() || !matches!(s.op, Op::Next | Op::OwnedNext | Op::ReadSet(_)) {
                continue;
            }
            if let Some(Some(c)) = cursors.get(si) {
                let item = &m.items[*c];
                let e = (item.end - item.byte) as usize;
                for (arg, _) in &s.seam.grows {
                    if e + 1 <= *arg {
                        v.push(Violation::new("C09.unneeded_growth", format!("step {} {:?}: grow_to({}) was called while parsing the item at byte {} whose raw extent is {} bytes (fits with one byte of look-ahead)", si, s.op, arg, item.byte, e)));
                        break;
                    }
                }
                st.probe("probe.necessity_checked");
            }
            if v.len() > 3 {
                break;
            }
        }
    }
    if !v.is_empty() {
        let f = features(rs, cfg);
        for x in v.iter_mut() {
            x.features = f.clone();
        }
    }
    RunResult { violations: v, log_hash: log.log_hash }
}

impl Check for C09 {
    fn id(&self) -> &str {
        "C09"
    }
    fn engine(&self) -> &str {
        "sim-io"
    }
    fn budget(&self, tier: Tier) -> u64 {
        crate::budget_for(self.id(), tier)
    }
    fn generate(&self, rng: &Rng, tier: Tier, _idx: u64) -> Value {
        serde_json::to_value(gen_c09(rng, tier)).unwrap()
    }
    fn run(&self, scn: &Value, st: &mut Stats) -> RunResult {
        match serde_json::from_value::<C09Scn>(scn.clone()) {
            Ok(s) => run_c09(&s, st),
            _ => bad_scn(),
        }
    }
    fn shrink(&self, scn: &Value) -> Vec<Value> {
        let s: C09Scn = match serde_json::from_value(scn.clone()) {
            Ok(s) => s,
            Err(_) => return vec![],
        };
        let mut out = vec![];
        if let Some(r) = &s.read {
            for b in shrink_read(r) {
                // keep the policy: it is the subject here
                let mut b = b;
                if b.cfgs[0].policy != r.cfgs[0].policy {
                    b.cfgs[0].policy = r.cfgs[0].policy.clone();
                }
                let c = C09Scn { read: Some(b), arith: None };
                out.push(serde_json::to_value(c).unwrap());
            }
        }
        if let Some((spec, sizes)) = &s.arith {
            for i in 0..sizes.len() {
                let mut z = sizes.clone();
                z.remove(i);
                out.push(serde_json::to_value(C09Scn { read: None, arith: Some((spec.clone(), z)) }).unwrap());
            }
        }
        out
    }
    fn rule_text(&self) -> String {
        "inputs whose record lengths straddle the capacity x policies {Std, DoubleUntil(k), DoubleUntilLimited(k,l) with tiny k,l, +1, +k, refuse-always, refuse-after-j, double-with-limit} x histories of Next/OwnedNext/ReadSet/SeekRec/SetPolicy (exact-count batches only for the clauses that allow them) x chunk scripts; recording SimPolicy. Oracle: grow_to argument chain == capacity, request size of a fill from an empty buffer == granted capacity, growth only when raw extent + 1 > capacity (cursor from the reference model), BufferLimit <=> refusal in that call, records delivered exactly until a refusal; 1 in 12 scenarios evaluates the built-in policy arithmetic directly against the documented rule (pure function, no simulation involved). Non-trivial: growth, refusal or refill happened; distinct by (input, event log).".into()
    }
    fn assumptions(&self) -> Vec<String> {
        vec![
            "one byte of slack in the necessity clause: both readers need one byte of look-ahead or a not-full buffer to see a record's end".into(),
            "Vec::reserve_exact on the System allocator yields exactly the requested capacity (observed through the request size of fresh fills)".into(),
        ]
    }
    fn components(&self) -> Value {
        components()
    }
    fn sample(&self, scn: &Value) -> Value {
        let mut v = scn.clone();
        if !scn["read"].is_null() {
            v["read"] = abbreviate(&scn["read"]);
        }
        v
    }
    fn risky(&self, scn: &Value) -> bool {
        scenario_is_risky(scn)
    }
    fn expected_probes(&self) -> Vec<&'static str> {
        vec!["refill", "growth", "growth_refused", "necessity_checked"]
    }
}

// ===========================================================================
// C12 — LF vs CRLF renderings
// ===========================================================================

pub struct C12;

#[derive(Serialize, Deserialize, Clone, Debug, PartialEq)]
pub struct ARec {
    #[serde(with = "esc")]
    pub head: Vec<u8>,
    /// FASTA: sequence lines; FASTQ: [seq, qual]
    pub lines: Vec<String>,
}

#[derive(Serialize, Deserialize, Clone, Debug, PartialEq)]
pub struct Render {
    /// per-line terminator choice, cyclic: true = CRLF
    pub crlf: Vec<bool>,
    pub final_term: bool,
    pub cfg: Cfg,
}

#[derive(Serialize, Deserialize, Clone, Debug, PartialEq)]
pub struct C12Scn {
    pub fmt: Fmt,
    pub recs: Vec<ARec>,
    pub renders: Vec<Render>,
    /// read with record sets instead of next()
    #[serde(default)]
    pub sets: bool,
    /// FASTA only: blank lines in front of the first record (skipped by the reader; they are
    /// rendered with the terminators of the rendering)
    #[serde(default)]
    pub lead_blank: usize,
}

pub fn render_c12(s: &C12Scn, r: &Render) -> Vec<u8> {
    let mut lines: Vec<Vec<u8>> = vec![];
    if s.fmt == Fmt::Fasta {
        for _ in 0..s.lead_blank {
            lines.push(vec![]);
        }
    }
    for rec in &s.recs {
        match s.fmt {
            Fmt::Fasta => {
                let mut h = vec![b'>'];
                h.extend_from_slice(&rec.head);
                lines.push(h);
                for l in &rec.lines {
                    lines.push(esc::from_str(l).unwrap_or_default());
                }
            }
            Fmt::Fastq => {
                let mut h = vec![b'@'];
                h.extend_from_slice(&rec.head);
                lines.push(h);
                lines.push(esc::from_str(rec.lines.first().map(|x| x.as_str()).unwrap_or("")).unwrap_or_default());
                // (an optional third entry is the text that follows the '+' of the separator line)
                let mut sep = vec![b'+'];
                sep.extend(esc::from_str(rec.lines.get(2).map(|x| x.as_str()).unwrap_or("")).unwrap_or_default());
                lines.push(sep);
                lines.push(esc::from_str(rec.lines.get(1).map(|x| x.as_str()).unwrap_or("")).unwrap_or_default());
            }
        }
    }
    let mut out = vec![];
    let n = lines.len();
    for (i, l) in lines.iter().enumerate() {
        out.extend_from_slice(l);
        if i + 1 < n || r.final_term {
            let crlf = if r.crlf.is_empty() { false } else { r.crlf[i % r.crlf.len()] };
            if crlf {
                out.push(b'\r');
            }
            out.push(b'\n');
        }
    }
    out
}

pub fn gen_c12(rng: &Rng, tier: Tier) -> C12Scn {
    let max_recs = match tier {
        Tier::Quick => 5,
        Tier::Thorough => 12,
    };
    let fmt = if rng.chance(1, 2) { Fmt::Fasta } else { Fmt::Fastq };
    let mut recs = vec![];
    match fmt {
        Fmt::Fasta => {
            let a = gen_afasta(rng, max_recs, true);
            for (h, ls) in a.recs {
                recs.push(ARec { head: h, lines: ls.iter().map(|l| esc::to_string(l)).collect() });
            }
        }
        Fmt::Fastq => {
            let a = gen_afastq(rng, max_recs, true);
            for (h, s, q) in a.recs {
                let mut lines = vec![esc::to_string(&s), esc::to_string(&q)];
                // separator lines of differing lengths: bare, the header repeated, or a short text
                match rng.below(8) {
                    0 => lines.push(esc::to_string(&h)),
                    1 | 2 => lines.push(esc::to_string(&(0..rng.range(1, 4)).map(|_| *rng.pick(b"r12+@ a")).collect::<Vec<u8>>())),
                    _ => {}
                }
                recs.push(ARec { head: h, lines });
            }
        }
    }
    let lead_blank = if fmt == Fmt::Fasta && rng.chance(1, 4) { rng.range(1, 9) } else { 0 };
    let mut s = C12Scn { fmt, recs, renders: vec![], sets: rng.chance(1, 4), lead_blank };
    // the four canonical renderings in random order, FASTA additionally per-line mixtures
    let mut kinds: Vec<(Vec<bool>, bool)> = vec![(vec![false], true), (vec![true], true), (vec![false], false), (vec![true], false)];
    if fmt == Fmt::Fasta {
        for _ in 0..rng.range(0, 2) {
            let n = rng.range(2, 7);
            kinds.push(((0..n).map(|_| rng.chance(1, 2)).collect(), rng.chance(1, 2)));
        }
    }
    // a random subset of at least two
    while kinds.len() > 2 && rng.chance(1, 3) {
        let i = rng.below(kinds.len() as u64) as usize;
        kinds.remove(i);
    }
    for (crlf, ft) in kinds {
        let mut r = Render { crlf, final_term: ft, cfg: Cfg::plain(3) };
        let bytes = render_c12(&s, &r);
        r.cfg = gen_cfg(rng, &bytes, true);
        s.renders.push(r);
    }
    s
}

pub fn run_c12(s: &C12Scn, st: &mut Stats) -> RunResult {
    let mut v: Vec<Violation> = vec![];
    let mut hash = 0u64;
    // (records, header line numbers, error) per rendering
    let mut results: Vec<(Vec<RecObs>, Vec<u64>, Option<String>)> = vec![];
    let mut nt = false;
    for r in &s.renders {
        let input = render_c12(s, r);
        let n = s.recs.len();
        let ops = if s.sets { (0..n + 2).map(|_| Op::ReadSet(0)).collect() } else { ops_next_to_end(n) };
        // the header accessors (id / desc / id_desc) are part of "the returned header"
        let mon = Monitors { views: true, iters: false, serde: false, unchanged: false, iter_seed: 0 };
        let rs = ReadScn { fmt: s.fmt, input, cfgs: vec![r.cfg.clone()], ops, mon, profile: String::new() };
        let log = drive(&rs, &r.cfg, &vec![]);
        nt |= record_stats(&rs, &r.cfg, &log, st).is_some();
        for step in &log.steps {
            for (rule, d) in &step.mon {
                if (rule.starts_with("C13.id") || rule.starts_with("C13.desc")) && v.len() < 2 {
                    v.push(Violation::new("C12.header_accessors", format!("rendering with crlf mask {:?}: {}", r.crlf, d)));
                }
            }
        }
        hash = vcore::mix(hash, log.log_hash);
        let mut recs = vec![];
        let mut lines = vec![];
        let mut err = None;
        for step in &log.steps {
            match &step.out {
                Out::Rec(x) => {
                    recs.push(x.clone());
                    lines.push(step.pos.map(|p| p.0).unwrap_or(0));
                }
                Out::Set(xs) => recs.extend(xs.iter().cloned()),
                Out::Err(e, _) => {
                    err = Some(format!("{:?}", e));
                    break;
                }
                Out::Panic(m) | Out::Hang(m) => {
                    err = Some(format!("panic/hang: {}", m));
                    break;
                }
                _ => {}
            }
        }
        results.push((recs, lines, err));
    }
    let desc = |i: usize| format!("rendering {} (crlf mask {:?}, final terminator {}, cap {})", i, s.renders[i].crlf, s.renders[i].final_term, s.renders[i].cfg.cap);
    for (i, (recs, _, err)) in results.iter().enumerate() {
        if let Some(e) = err {
            v.push(Violation::new("C12.error_appears", format!("{} of a well-formed file reports {}", desc(i), e)));
            break;
        }
        for (k, r) in recs.iter().enumerate() {
            let has_cr = r.head.contains(&b'\r') || r.seq.contains(&b'\r') || r.qual.contains(&b'\r') || r.lines.iter().any(|l| l.contains(&b'\r'));
            if has_cr {
                v.push(Violation::new("C12.carriage_return", format!("{}: record {} contains a carriage return: head {:?} seq {:?} qual {:?}", desc(i), k, show(&r.head), show(&r.seq), show(&r.qual))));
                break;
            }
        }
    }
    if v.is_empty() {
        for i in 1..results.len() {
            if results[i].0 != results[0].0 {
                v.push(Violation::new("C12.records_differ", format!("{} yields {} records, {} yields {}; first difference at record {:?}", desc(0), results[0].0.len(), desc(i), results[i].0.len(), results[0].0.iter().zip(&results[i].0).position(|(a, b)| a != b))));
                break;
            }
            if results[i].1 != results[0].1 {
                v.push(Violation::new("C12.line_numbers_differ", format!("{} reports header lines {:?}, {} reports {:?}", desc(0), results[0].1, desc(i), results[i].1)));
                break;
            }
        }
    }
    st.count("step.renderings_compared", s.renders.len() as u64);
    if nt {
        st.set_insert("nontrivial", hash);
    }
    if !v.is_empty() {
        for x in v.iter_mut() {
            x.features.insert(format!("fmt:{}", if s.fmt == Fmt::Fasta { "fasta" } else { "fastq" }));
        }
    }
    RunResult { violations: v, log_hash: hash }
}

impl Check for C12 {
    fn id(&self) -> &str {
        "C12"
    }
    fn engine(&self) -> &str {
        "sim-io"
    }
    fn budget(&self, tier: Tier) -> u64 {
        crate::budget_for(self.id(), tier)
    }
    fn generate(&self, rng: &Rng, tier: Tier, _idx: u64) -> Value {
        serde_json::to_value(gen_c12(rng, tier)).unwrap()
    }
    fn run(&self, scn: &Value, st: &mut Stats) -> RunResult {
        match serde_json::from_value::<C12Scn>(scn.clone()) {
            Ok(s) if s.renders.len() >= 2 => run_c12(&s, st),
            _ => bad_scn(),
        }
    }
    fn shrink(&self, scn: &Value) -> Vec<Value> {
        let s: C12Scn = match serde_json::from_value(scn.clone()) {
            Ok(s) => s,
            Err(_) => return vec![],
        };
        let mut out: Vec<C12Scn> = vec![];
        if s.renders.len() > 2 {
            for i in 0..s.renders.len() {
                let mut c = s.clone();
                c.renders.remove(i);
                out.push(c);
            }
        }
        if s.recs.len() > 1 {
            for i in 0..s.recs.len() {
                let mut c = s.clone();
                c.recs.remove(i);
                out.push(c);
            }
        }
        for i in 0..s.recs.len() {
            if !s.recs[i].head.is_empty() {
                let mut c = s.clone();
                c.recs[i].head = vec![];
                out.push(c);
            }
            for k in 0..s.recs[i].lines.len() {
                if s.fmt == Fmt::Fasta && s.recs[i].lines.len() > 0 {
                    let mut c = s.clone();
                    c.recs[i].lines.remove(k);
                    out.push(c);
                }
                let l = &s.recs[i].lines[k];
                if l.len() > 1 && l.is_ascii() && !l.contains('\\') {
                    let mut c = s.clone();
                    if s.fmt == Fmt::Fastq {
                        // keep seq and qual equally long
                        let n = l.len() / 2;
                        for z in c.recs[i].lines.iter_mut() {
                            if z.is_ascii() && !z.contains('\\') && z.len() >= n {
                                z.truncate(n);
                            }
                        }
                    } else {
                        c.recs[i].lines[k].truncate(l.len() / 2);
                    }
                    out.push(c);
                }
            }
        }
        for i in 0..s.renders.len() {
            let r = &s.renders[i];
            if !r.cfg.script.is_empty() {
                let mut c = s.clone();
                c.renders[i].cfg.script = vec![];
                out.push(c);
            }
            if !r.cfg.cuts.is_empty() {
                let mut c = s.clone();
                c.renders[i].cfg.cuts = vec![];
                out.push(c);
            }
            if r.cfg.policy != PolicySpec::Std {
                let mut c = s.clone();
                c.renders[i].cfg.policy = PolicySpec::Std;
                out.push(c);
            }
            for cap in [3usize, r.cfg.cap / 2, r.cfg.cap.saturating_sub(1), 64] {
                if cap >= 3 && cap != r.cfg.cap && (cap < r.cfg.cap || r.cfg.cap > 64) {
                    let mut c = s.clone();
                    c.renders[i].cfg.cap = cap;
                    out.push(c);
                }
            }
            if r.crlf.len() > 1 {
                let mut c = s.clone();
                c.renders[i].crlf = vec![r.crlf[0]];
                out.push(c);
            }
        }
        if s.sets {
            let mut c = s.clone();
            c.sets = false;
            out.push(c);
        }
        if s.lead_blank > 0 {
            let mut c = s.clone();
            c.lead_blank -= 1;
            out.push(c);
            let mut c = s.clone();
            c.lead_blank = 0;
            out.push(c);
        }
        out.into_iter().map(|x| serde_json::to_value(x).unwrap()).collect()
    }
    fn rule_text(&self) -> String {
        "abstract well-formed file (records with CR/LF-free fields incl. non-UTF-8 bytes, empty headers, FASTA records without sequence; FASTQ separator lines bare, repeating the header, or with a short text, so that they differ in length) rendered {LF, CRLF} x {final terminator, none} (+ per-line mixtures for FASTA), each rendering read under an independently drawn (capacity, policy, chunk script with Interrupted, cut offsets) via next() or record sets. Oracle is a relation between the runs: same records, same header line numbers, no error in any rendering, no carriage return in any returned field. Non-trivial: a rendering refilled or grew; distinct by (input, event log).".into()
    }
    fn assumptions(&self) -> Vec<String> {
        vec!["relation between runs only; absolute correctness of the records is C01/C02".into()]
    }
    fn components(&self) -> Value {
        components()
    }
    fn expected_probes(&self) -> Vec<&'static str> {
        vec!["refill", "growth", "cr_last_buffered_byte", "lf_last_buffered_byte"]
    }
}

pub fn _unused() -> Value {
    json!(null)
}
