//! Oracle for read histories: compares the recorded observation log of one run
//! with the reference model, operation by operation (cursor model), including
//! the narrow post-fault relaxation of DESIGN 4.4.

use crate::drive::{Out, RunLog, Step};
use crate::model::{ErrObs, Item, Model, RecObs};
use crate::scn::*;
use vcore::Violation;

pub struct JudgeOpts<'a> {
    /// property the conformance rules are attributed to
    pub prop: &'a str,
    /// C05: check reported positions
    pub check_pos: bool,
    /// monitor rule prefixes this check reports (e.g. ["C13."])
    pub mon_prefixes: &'a [&'a str],
    /// C17: check that error messages contain their values
    pub check_msg: bool,
    /// if set, only these conformance rule suffixes are reported (monitor rules are governed by
    /// `mon_prefixes`)
    pub only: Option<&'a [&'a str]>,
    /// C05 ("from any reader state"): a successful seek to a record position restores exact
    /// conformance even after an I/O error or a refusal has been returned earlier
    pub exact_after_seek: bool,
}

#[derive(Clone, Copy, Debug, PartialEq)]
enum Phase {
    Exact(usize),
    /// end of input was reported legitimately: every further read must report it again
    AtEnd(usize),
    /// a format error was reported: every further read reports end of input
    Done,
    /// after an I/O error or a refused growth: end, error, or genuine records with ascending index
    Loose(usize),
}

#[derive(Clone, Debug)]
enum Slot {
    Unknown,
    Filled(Vec<RecObs>),
}

fn rec_ok(item: &Item, r: &RecObs, owned: bool) -> bool {
    if owned {
        item.recs
            .iter()
            .any(|m| m.head == r.head && m.seq == r.seq && m.qual == r.qual)
    } else {
        item.rec_matches(r)
    }
}

fn genuine_from(model: &Model, from: usize, r: &RecObs, owned: bool) -> Option<usize> {
    (from..model.items.len()).find(|&j| rec_ok(&model.items[j], r, owned))
}

fn show_rec(r: &RecObs) -> String {
    if r.lines.is_empty() {
        format!("(head {:?} seq {:?} qual {:?})", show(&r.head), show(&r.seq), show(&r.qual))
    } else {
        format!(
            "(head {:?} lines {:?})",
            show(&r.head),
            r.lines.iter().map(|l| show(l)).collect::<Vec<_>>()
        )
    }
}

fn show_item(i: &Item) -> String {
    let mut parts = vec![];
    for r in &i.recs {
        parts.push(format!("record {}", show_rec(r)));
    }
    for e in &i.errs {
        parts.push(format!("error {} line {:?} found {:?} seq {:?} qual {:?} id {:?}", e.kind, e.lines, e.found.map(|b| b as char), e.seq, e.qual, e.id));
    }
    if i.end_ok {
        parts.push("end of input".into());
    }
    format!("{{{}}} at byte {} line {}", parts.join(" | "), i.byte, i.line)
}

fn shift_err(e: &ErrObs, dl: u64) -> ErrObs {
    match e.clone() {
        ErrObs::InvalidStart { line, found, id } => ErrObs::InvalidStart { line: line + dl, found, id },
        ErrObs::InvalidSep { line, found, id } => ErrObs::InvalidSep { line: line + dl, found, id },
        ErrObs::UnequalLengths { line, seq, qual, id } => ErrObs::UnequalLengths { line: line + dl, seq, qual, id },
        ErrObs::UnexpectedEnd { line, id } => ErrObs::UnexpectedEnd { line: line + dl, id },
        other => other,
    }
}

/// error line numbers of a restarted reader -> input coordinates (the message is left alone and
/// not checked in that case)
fn shift_out(o: &Out, dl: u64) -> Out {
    match o {
        Out::Err(e, _) => Out::Err(shift_err(e, dl), String::new()),
        Out::Drained(v) => Out::Drained(v.iter().map(|x| shift_out(x, dl)).collect()),
        other => other.clone(),
    }
}

pub fn msg_ok(e: &ErrObs, msg: &str) -> Result<(), String> {
    let esc = |b: u8| (b as char).escape_default().to_string();
    let need: Vec<String> = match e {
        ErrObs::InvalidStart { line, found, id } => {
            let mut v = vec![line.to_string(), format!("'{}'", esc(*found))];
            if let Some(i) = id {
                v.push(i.clone());
            }
            v
        }
        ErrObs::InvalidSep { line, found, id } => {
            let mut v = vec![line.to_string(), format!("'{}'", esc(*found))];
            if let Some(i) = id {
                v.push(i.clone());
            }
            v
        }
        ErrObs::UnequalLengths { line, seq, qual, id } => {
            let mut v = vec![line.to_string(), seq.to_string(), qual.to_string()];
            if let Some(i) = id {
                v.push(i.clone());
            }
            v
        }
        ErrObs::UnexpectedEnd { line, id } => {
            let mut v = vec![line.to_string()];
            if let Some(i) = id {
                v.push(i.clone());
            }
            v
        }
        _ => vec![],
    };
    // numeric values: every needed number must be present as its own maximal digit run
    // (multiset containment); other values as substrings
    let mut digit_runs: Vec<String> = vec![];
    let mut cur = String::new();
    for ch in msg.chars() {
        if ch.is_ascii_digit() {
            cur.push(ch);
        } else if !cur.is_empty() {
            digit_runs.push(std::mem::take(&mut cur));
        }
    }
    if !cur.is_empty() {
        digit_runs.push(cur);
    }
    for n in &need {
        if !n.is_empty() && n.chars().all(|c| c.is_ascii_digit()) {
            if let Some(p) = digit_runs.iter().position(|d| d == n) {
                digit_runs.remove(p);
            } else {
                return Err(format!("message {:?} lacks the number {}", msg, n));
            }
        } else if !msg.contains(n.as_str()) {
            return Err(format!("message {:?} lacks value {:?}", msg, n));
        }
    }
    Ok(())
}

pub fn judge(model: &Model, scn: &ReadScn, log: &RunLog, o: &JudgeOpts) -> Vec<Violation> {
    judge_with_cursors(model, scn, log, o).0
}

/// Also returns, per step, the model cursor *before* the step when it is known exactly.
pub fn judge_with_cursors(model: &Model, scn: &ReadScn, log: &RunLog, o: &JudgeOpts) -> (Vec<Violation>, Vec<Option<usize>>) {
    let mut cursors: Vec<Option<usize>> = vec![];
    let mut out: Vec<Violation> = vec![];
    let p = o.prop;
    let mut phase = Phase::Exact(0);
    // set once an I/O error or a refused growth has been returned: from then on the relaxed
    // rule of DESIGN 4.4 applies for the rest of the run (a successful seek only resets the
    // lower bound of the ascending-order rule)
    let mut errored = false;
    let mut slots: Vec<Slot> = vec![Slot::Unknown; N_SLOTS];
    let mut viol = |rule: &str, detail: String| {
        if out.len() < 6 {
            let full = match rule.strip_prefix('@') {
                Some(r) => r.to_string(),
                None => {
                    if let Some(only) = o.only {
                        if !only.contains(&rule) {
                            return;
                        }
                    }
                    format!("{}.{}", p, rule)
                }
            };
            out.push(Violation::new(&full, detail));
        }
    };

    // origin of the current reader (Restart): reported coordinates are relative to it
    let mut origin: (u64, u64) = (0, 0);
    let mut errored_next = false;
    // an injected I/O error has fired at some point of the run (including the current step)
    let mut io_seen = false;
    let mut end_reported = false;
    for (si, step) in log.steps.iter().enumerate() {
        errored = errored_next;
        // (a fault that fired in a *seek* call of the source leaves source and buffer as they were:
        // the reader is not "damaged" by it, see the Loose arm of judge_error)
        if (step.seam.seek_faults as usize) < step.seam.faults.len() {
            io_seen = true;
        }
        cursors.push(match phase {
            Phase::Exact(c) | Phase::AtEnd(c) => Some(c),
            _ => None,
        });
        let fault = !step.seam.faults.is_empty();
        let refused = step.seam.grows.iter().any(|g| g.1.is_none());
        let at = format!("step {} {:?}", si, step.op);

        for (rule, detail) in &step.mon {
            if o.mon_prefixes.iter().any(|pre| rule.starts_with(pre)) {
                // monitor rules carry their own property prefix; under another property's check
                // they are reported in that property's name space
                if rule.starts_with(p) {
                    viol(&format!("@{}", rule), format!("{}: {}", at, detail));
                } else {
                    viol(&format!("@{}.{}", p, rule.replace('.', "_")), format!("{}: {}", at, detail));
                }
            }
        }
        if !step.slots_changed.is_empty() {
            viol("earlier_set_changed", format!("{}: record set slot(s) {:?} filled earlier no longer iterate to the same records", at, step.slots_changed));
        }

        match &step.out {
            Out::Panic(m) => {
                viol("panic", format!("{}: panicked: {}", at, m));
                break;
            }
            Out::Hang(m) => {
                viol("hang", format!("{}: {}", at, m));
                break;
            }
            _ => {}
        }

        if fault || refused || matches!(&step.out, Out::Err(e, _) if !e.is_format()) {
            errored_next = true;
        }
        // reported coordinates -> input coordinates
        let step_abs;
        let step = if origin != (0, 0) {
            let mut s2 = step.clone();
            s2.pos = step.pos.map(|p| (p.0 + origin.0, p.1 + origin.1));
            s2.target = step.target.map(|p| (p.0 + origin.0, p.1 + origin.1));
            s2.out = shift_out(&step.out, origin.0);
            step_abs = s2;
            &step_abs
        } else {
            step
        };
        // model-independent: once a read has reported the end (in a call without fault or refusal)
        // every later read reports the end as well, until a seek or a new reader
        {
            // With a growing input (Cfg::pause: data arrive after a read returned Ok(0)) only one
            // and the same iterator object is bound to stay at the end (C20), i.e. the items of a
            // drain; a later next() / records() call may legitimately see the new data.
            let growing = scn.cfgs.first().map(|c| c.pause.is_some()).unwrap_or(false);
            if growing && !matches!(step.op, Op::Drain) {
                end_reported = false;
            }
            let outs: Vec<&Out> = match (&step.op, &step.out) {
                (Op::Drain, Out::Drained(v)) => v.iter().collect(),
                (Op::Next | Op::OwnedNext | Op::ReadSet(_) | Op::ReadSetExact(_, _), o) if !growing => vec![o],
                _ => vec![],
            };
            for one in outs {
                match one {
                    Out::End => {
                        // (the items of a drain come from one iterator object: whatever was
                        // refused earlier in that drain, a None of that iterator is its end)
                        if !fault && (!refused || matches!(step.op, Op::Drain)) {
                            end_reported = true;
                        }
                    }
                    // (a source error that fired in this very call is the source's, not the reader's)
                    Out::Err(e, _) if end_reported && fault && !e.is_format() => {}
                    Out::Rec(_) | Out::Err(_, _) if end_reported => {
                        viol("end_not_sticky", format!("{}: returned {} although an earlier read had reported the end of the input (no seek in between)", at, crate::checks2::brief(one)));
                        end_reported = false;
                    }
                    Out::Set(v) if end_reported && !v.is_empty() => {
                        viol("end_not_sticky", format!("{}: returned a record set with {} records although an earlier read had reported the end of the input (no seek in between)", at, v.len()));
                        end_reported = false;
                    }
                    _ => {}
                }
            }
            if matches!((&step.op, &step.out), (Op::SeekRec(_) | Op::SeekSeen(_), Out::SeekOk)) || step.restarted.is_some() {
                end_reported = false;
            }
        }
        // expand the step into read outcomes
        match &step.op {
            Op::Next | Op::OwnedNext => {
                let owned = matches!(step.op, Op::OwnedNext);
                phase = judge_single(model, phase, &step.out, owned, fault, refused, io_seen, step, o, &at, &mut viol);
            }
            Op::Drain => {
                if let Out::Drained(v) = &step.out {
                    // Under a policy that refuses its first k requests and then agrees for good
                    // (RefuseFirst, never replaced) every record is within the permitted sizes in
                    // the end: apart from the BufferLimit items themselves the drain has to deliver
                    // exactly what the model says ("records that fit within the permitted sizes are
                    // parsed normally", and a refusal does not end the iterator)
                    let strict = refused
                        && !fault
                        && matches!(scn.cfgs.first().map(|c| &c.policy), Some(PolicySpec::RefuseFirst(_)))
                        && !scn.ops.iter().any(|x| matches!(x, Op::SetPolicy(_)));
                    let mut ph = if (fault || refused) && !strict {
                        match phase {
                            Phase::Exact(c) | Phase::AtEnd(c) | Phase::Loose(c) => Phase::Loose(c),
                            Phase::Done => Phase::Loose(0),
                        }
                    } else {
                        phase
                    };
                    for (k, one) in v.iter().enumerate() {
                        let at2 = format!("{} item {}", at, k);
                        // the whole drain is one step: its faults / refusals are attributed to
                        // whichever item reports an error, never demanded of a particular item
                        let mut st = step.clone();
                        st.pos = None;
                        let is_err = matches!(one, Out::Err(e, _) if !e.is_format());
                        if strict && matches!(one, Out::Err(ErrObs::BufferLimit, _)) {
                            continue;
                        }
                        ph = judge_single(model, ph, one, true, fault && is_err, refused && is_err && !strict, io_seen, &st, o, &at2, &mut viol);
                    }
                    // a fault-free drain must end with end of input reported twice
                    let n = v.len();
                    if !fault && !refused && (n < 2 || v[n - 1] != Out::End || v[n - 2] != Out::End) {
                        viol("drain_no_end", format!("{}: into_records() did not settle on end of input within {} items", at, n));
                    }
                    phase = ph;
                }
            }
            Op::ReadSet(slot) | Op::ReadSetExact(slot, _) => {
                let slot = *slot % N_SLOTS;
                let exact_n = match step.op {
                    Op::ReadSetExact(_, n) => Some(n.max(1)),
                    _ => None,
                };
                slots[slot] = Slot::Unknown;
                match &step.out {
                    Out::Set(recs) => {
                        slots[slot] = Slot::Filled(recs.clone());
                        if fault {
                            viol("fault_swallowed", format!("{}: a source error {:?} fired during the call but it returned a record set", at, step.seam.faults));
                        }
                        if refused {
                            viol("refusal_swallowed", format!("{}: the policy refused growth during the call but it returned a record set", at));
                        }
                        match phase {
                            Phase::Exact(c) => {
                                let k = recs.len();
                                if k == 0 {
                                    viol("empty_set", format!("{}: successful record-set read yields no record (model cursor {})", at, c));
                                }
                                let mut ok = true;
                                for (i, r) in recs.iter().enumerate() {
                                    let item = model.items.get(c + i);
                                    if !item.map(|it| rec_ok(it, r, false)).unwrap_or(false) {
                                        viol("wrong_batch", format!("{}: batch record {} is {} but the model expects {}", at, i, show_rec(r), item.map(show_item).unwrap_or("nothing".into())));
                                        ok = false;
                                        break;
                                    }
                                }
                                if let Some(n) = exact_n {
                                    if k > n {
                                        viol("exact_count", format!("{}: exact-count read of {} yields {} records", at, n, k));
                                    } else if k < n && ok && model.items.get(c + k).map(|it| it.must_rec()).unwrap_or(false) {
                                        viol("exact_count", format!("{}: exact-count read of {} yields only {} although more records remain", at, n, k));
                                    }
                                }
                                phase = if ok { Phase::Exact(c + k) } else { Phase::Loose(0) };
                                if ok && o.check_pos {
                                    if let (Some(pos), Some(item)) = (step.pos, model.items.get(c + k)) {
                                        if (item.is_rec() || !item.errs.is_empty()) && !item.end_ok && pos != (item.line, item.byte) {
                                            viol("position_after_set", format!("{}: position {:?} after the set read, next unread item is at line {} byte {}", at, pos, item.line, item.byte));
                                        }
                                    }
                                }
                            }
                            Phase::AtEnd(_) | Phase::Done => {
                                viol("not_end_after_end", format!("{}: record set returned after end of input / a format error had been reported", at));
                            }
                            Phase::Loose(mut m) => {
                                for r in recs {
                                    match genuine_from(model, m, r, false) {
                                        Some(j) => m = j + 1,
                                        None => {
                                            viol("fabricated_record", format!("{}: after an error, batch contains {} which is not a record of the input at or after index {}", at, show_rec(r), m));
                                            break;
                                        }
                                    }
                                }
                                phase = Phase::Loose(m);
                            }
                        }
                    }
                    Out::End => match phase {
                        Phase::Exact(c) => {
                            if fault {
                                viol("fault_swallowed", format!("{}: a source error fired during the call but it reported end of input", at));
                            } else if refused {
                                viol("refusal_swallowed", format!("{}: growth was refused during the call but it reported end of input", at));
                            } else if !model.items[c].end_ok {
                                viol("premature_end", format!("{}: end of input reported but the model expects {}", at, show_item(&model.items[c])));
                                phase = Phase::Loose(c);
                            } else {
                                phase = Phase::AtEnd(c);
                            }
                        }
                        _ => {}
                    },
                    Out::Err(e, msg) => {
                        phase = judge_error(model, phase, e, msg, fault, refused, true, io_seen, step, o, &at, &mut viol);
                    }
                    _ => {}
                }
            }
            Op::SeekRec(_) | Op::SeekSeen(_) => match &step.out {
                Out::SeekOk => {
                    if fault {
                        viol("fault_swallowed", format!("{}: a source error fired during seek but it returned Ok", at));
                    }
                    let t = step.target.unwrap();
                    match model.items.iter().position(|it| (it.line, it.byte) == t) {
                        Some(j) if !errored || o.exact_after_seek => phase = Phase::Exact(j),
                        Some(j) => phase = Phase::Loose(j),
                        None => phase = Phase::Loose(0),
                    }
                }
                Out::Err(e, _) => match e {
                    ErrObs::Io(k) if fault && step.seam.faults.contains(k) => {
                        phase = Phase::Loose(0);
                    }
                    _ => {
                        viol("seek_error", format!("{}: seek returned {:?} (faults fired: {:?})", at, e, step.seam.faults));
                        phase = Phase::Loose(0);
                    }
                },
                _ => {}
            },
            Op::IterSet(slot) => {
                let slot = *slot % N_SLOTS;
                if let Out::Iter(v) = &step.out {
                    match &slots[slot] {
                        Slot::Filled(snap) => {
                            if v != snap {
                                viol("set_changed", format!("{}: re-iterating a filled record set gives {} records, the fill gave {}", at, v.len(), snap.len()));
                            }
                        }
                        Slot::Unknown => {
                            for r in v {
                                if model.is_genuine(r).is_none() {
                                    viol("fabricated_record_in_set", format!("{}: record set (last fill did not succeed) yields {} which is not a record of the input", at, show_rec(r)));
                                    break;
                                }
                            }
                        }
                    }
                }
            }
            Op::SetPolicy(_) | Op::ShrinkSet(_) => {}
            Op::Restart(_) => {
                if let Some((j, l, b)) = step.restarted {
                    origin = (l, b);
                    phase = Phase::Exact(j);
                    errored_next = false;
                    io_seen = false;
                }
            }
        }
    }
    let _ = scn;
    (out, cursors)
}


#[allow(clippy::too_many_arguments)]
fn judge_single(
    model: &Model,
    phase: Phase,
    out: &Out,
    owned: bool,
    fault: bool,
    refused: bool,
    io_seen: bool,
    step: &Step,
    o: &JudgeOpts,
    at: &str,
    viol: &mut dyn FnMut(&str, String),
) -> Phase {
    match out {
        Out::Rec(r) => {
            if fault {
                viol("fault_swallowed", format!("{}: a source error {:?} fired during the call but it returned a record", at, step.seam.faults));
            }
            if refused {
                viol("refusal_swallowed", format!("{}: the policy refused growth during the call but it returned a record", at));
            }
            match phase {
                Phase::Exact(c) => {
                    let item = &model.items[c];
                    if rec_ok(item, r, owned) {
                        if o.check_pos {
                            match step.pos {
                                Some(pos) if pos == (item.line, item.byte) => {}
                                Some(pos) => viol("position", format!("{}: position (line {}, byte {}) reported for the record at line {} byte {}", at, pos.0, pos.1, item.line, item.byte)),
                                None => {
                                    if !matches!(step.op, Op::Drain) {
                                        viol("position", format!("{}: no position reported after a record was returned", at));
                                    }
                                }
                            }
                        }
                        Phase::Exact(c + 1)
                    } else {
                        viol("wrong_record", format!("{}: returned {} but the model expects {}", at, show_rec(r), show_item(item)));
                        Phase::Loose(0)
                    }
                }
                Phase::AtEnd(_) | Phase::Done => {
                    viol("not_end_after_end", format!("{}: returned {} after end of input / a format error had been reported", at, show_rec(r)));
                    Phase::Loose(0)
                }
                Phase::Loose(m) => match genuine_from(model, m, r, owned) {
                    Some(j) => {
                        if o.check_pos && !io_seen && !matches!(step.op, Op::Drain) {
                            let item = &model.items[j];
                            // only unambiguous when no later item renders identically
                            let unique = genuine_from(model, j + 1, r, owned).is_none();
                            if let (Some(pos), true) = (step.pos, unique) {
                                if pos != (item.line, item.byte) {
                                    viol("position_after_refusal", format!("{}: position (line {}, byte {}) reported for the record at line {} byte {} (after a refused growth)", at, pos.0, pos.1, item.line, item.byte));
                                }
                            }
                        }
                        Phase::Loose(j + 1)
                    }
                    None => {
                        viol("fabricated_record", format!("{}: after an error, returned {} which is not a record of the input at or after index {}", at, show_rec(r), m));
                        Phase::Loose(m)
                    }
                },
            }
        }
        Out::End => match phase {
            Phase::Exact(c) => {
                if fault {
                    viol("fault_swallowed", format!("{}: a source error {:?} fired during the call but it reported end of input", at, step.seam.faults));
                    Phase::Loose(c)
                } else if refused {
                    viol("refusal_swallowed", format!("{}: growth was refused during the call but it reported end of input", at));
                    Phase::Loose(c)
                } else if model.items[c].end_ok {
                    Phase::AtEnd(c)
                } else {
                    viol("premature_end", format!("{}: end of input reported but the model expects {}", at, show_item(&model.items[c])));
                    Phase::Loose(c)
                }
            }
            ph => ph,
        },
        Out::Err(e, msg) => judge_error(model, phase, e, msg, fault, refused, false, io_seen, step, o, at, viol),
        _ => phase,
    }
}

#[allow(clippy::too_many_arguments)]
fn judge_error(
    model: &Model,
    phase: Phase,
    e: &ErrObs,
    msg: &str,
    fault: bool,
    refused: bool,
    is_set: bool,
    io_seen: bool,
    step: &Step,
    o: &JudgeOpts,
    at: &str,
    viol: &mut dyn FnMut(&str, String),
) -> Phase {
    let cursor = match phase {
        Phase::Exact(c) | Phase::AtEnd(c) | Phase::Loose(c) => c,
        Phase::Done => 0,
    };
    match e {
        ErrObs::Io(k) => {
            if !(fault && step.seam.faults.contains(k)) {
                viol("spurious_io", format!("{}: returned Io({}) but the injected faults during the call were {:?}", at, k, step.seam.faults));
            }
            if matches!(phase, Phase::Done) {
                Phase::Done
            } else {
                Phase::Loose(cursor)
            }
        }
        ErrObs::BufferLimit => {
            if !refused {
                viol("spurious_buffer_limit", format!("{}: returned BufferLimit but the policy did not refuse during the call (grow_to calls: {:?})", at, step.seam.grows));
            } else if fault {
                // both happened in one call: either report is fine
            }
            match phase {
                Phase::Done => Phase::Done,
                // a refused growth during a single-record read loses nothing: the buffer is full
                // and consistent, the same record is searched again by the next call
                Phase::Exact(c) if !is_set && refused && !fault => Phase::Exact(c),
                _ => Phase::Loose(cursor),
            }
        }
        _ => {
            // format error
            if o.check_msg && !msg.is_empty() {
                if let Err(why) = msg_ok(e, msg) {
                    viol("message", format!("{}: {}", at, why));
                }
            }
            if fault {
                viol("fault_as_format_error", format!("{}: a source error {:?} fired during the call but it returned the format error {:?}", at, step.seam.faults, e));
                return Phase::Loose(cursor);
            }
            if refused {
                viol("refusal_as_format_error", format!("{}: growth was refused during the call but it returned the format error {:?}", at, e));
                return Phase::Loose(cursor);
            }
            match phase {
                Phase::Exact(c) => {
                    // A set read delivers every record that precedes an invalid one before it
                    // reports the error ("nothing is lost", C04), so like a single read it may
                    // only report the error of the item at the cursor.
                    let _ = is_set;
                    let cands: Vec<usize> = if model.items[c].errs.is_empty() {
                        vec![]
                    } else {
                        vec![c]
                    };
                    if cands.iter().any(|j| model.items[*j].errs.iter().any(|p| p.matches(e))) {
                        Phase::Done
                    } else {
                        let j = cands.first().copied().unwrap_or(c);
                        viol("wrong_error", format!("{}: returned {:?} but the model expects {}", at, e, show_item(&model.items[j])));
                        Phase::Done
                    }
                }
                Phase::AtEnd(_) | Phase::Done => {
                    viol("not_end_after_end", format!("{}: returned {:?} after end of input / a format error had been reported", at, e));
                    Phase::Done
                }
                Phase::Loose(m) => {
                    // After refusals and failed seeks of the source only (no failed read so far)
                    // nothing in the reader is corrupted: a format error reported now is the
                    // input's own error and must carry its true coordinates (C17), unless the
                    // input has no error of that kind
                    if !io_seen {
                        let same_kind: Vec<&Item> = model.items[m.min(model.items.len())..].iter().filter(|it| it.errs.iter().any(|p| p.kind == e.kind())).collect();
                        if !same_kind.is_empty() && !same_kind.iter().any(|it| it.errs.iter().any(|p| p.matches(e))) {
                            viol("wrong_error_after_refusal", format!("{}: returned {:?} after a refused growth / a failed seek of the source; the input's error of that kind is {}", at, e, show_item(same_kind[0])));
                        }
                    }
                    Phase::Loose(m)
                }
            }
        }
    }
}
