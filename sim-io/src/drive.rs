//! Driver: applies an operation history to a real seq_io reader wired to the
//! simulated seams and records everything observable. No judgement happens
//! here except the invariant monitors that need the live borrowed records
//! (C13 views, C20 iterator histories, C19 serde, C11 write_unchanged).

use crate::model::{ErrObs, RecObs};
use crate::monitors;
use crate::scn::*;
use crate::seam::*;
use seq_io::{fasta, fastq};
use std::rc::Rc;
use vcore::Rng;

#[derive(Clone, Debug, PartialEq)]
pub enum Out {
    Rec(RecObs),
    End,
    Err(ErrObs, String),
    /// successful record-set read with the records obtained by iterating the set right away
    Set(Vec<RecObs>),
    SeekOk,
    Iter(Vec<RecObs>),
    /// SetPolicy, or an op that could not be applied (e.g. SeekSeen with nothing seen)
    Noop,
    Panic(String),
    Hang(String),
    /// Drain: everything `into_records()` produced
    Drained(Vec<Out>),
}

#[derive(Clone, Debug)]
pub struct Step {
    pub op: Op,
    pub out: Out,
    /// reader.position() right after the op (FASTA: None when not available)
    pub pos: Option<(u64, u64)>,
    /// resolved seek target of SeekRec / SeekSeen (in the coordinates of the current reader)
    pub target: Option<(u64, u64)>,
    /// Restart(j) was applied: (item index, line offset, byte offset) of the new reader's origin
    pub restarted: Option<(usize, u64, u64)>,
    pub seam: OpSeam,
    /// calls index range [from, to) of source calls made during the op
    pub calls_from: usize,
    pub calls_to: usize,
    /// violations found by the live monitors during this op: (rule, detail)
    pub mon: Vec<(String, String)>,
    /// for every slot other than the one written by this op whose last fill succeeded: did
    /// re-iteration still equal its snapshot?
    pub slots_changed: Vec<usize>,
}

#[derive(Clone, Debug, Default)]
pub struct RunLog {
    pub steps: Vec<Step>,
    pub log_hash: u64,
    pub out_hash: u64,
    pub total_steps: u64,
    pub all_grows: Vec<(usize, Option<usize>)>,
    pub reads: u64,
    pub interrupts: u64,
    pub false_eofs: u64,
    pub faults: u64,
    pub seeks: u64,
    pub eofs: u64,
    pub full_nl: u64,
    pub full_cr: u64,
    pub short_reads: u64,
    /// bytes produced by write_unchanged of every record returned by Next (monitor `unchanged`)
    pub unchanged: Vec<u8>,
    /// the run was cut short after a panic / hang (reader discarded)
    pub aborted: bool,
    pub sink_short: u64,
    pub sink_intr: u64,
    pub serde_checked: u64,
    pub iter_histories: u64,
    pub iter_steps: u64,
}

/// What the monitors may do with a live record.
pub struct MonCtx<'a> {
    pub mon: &'a Monitors,
    pub rng: Rng,
    pub found: Vec<(String, String)>,
    pub unchanged: Vec<u8>,
    /// the record is handed out for the first time (Next, or iteration right after a fill)
    pub fresh: bool,
    pub sink_short: u64,
    pub sink_intr: u64,
    pub serde_checked: u64,
    pub iter_histories: u64,
    pub iter_steps: u64,
    /// long-lived destinations of `clone_from` (they keep what earlier, possibly larger, record
    /// sets left in them)
    pub fa_clone_dst: Option<seq_io::fasta::RecordSet>,
    pub fq_clone_dst: Option<seq_io::fastq::RecordSet>,
}

impl<'a> MonCtx<'a> {
    pub fn new(mon: &'a Monitors, seed: u64) -> MonCtx<'a> {
        MonCtx {
            mon,
            rng: Rng::new(seed),
            found: vec![],
            unchanged: vec![],
            fresh: false,
            sink_short: 0,
            sink_intr: 0,
            serde_checked: 0,
            iter_histories: 0,
            iter_steps: 0,
            fa_clone_dst: None,
            fq_clone_dst: None,
        }
    }
}

pub trait Api {
    type Reader;
    type Set: Default;
    fn fmt() -> Fmt;
    fn new(src: SimSource, cap: usize, pol: SimPolicy) -> Self::Reader;
    fn next(r: &mut Self::Reader, ctx: &mut MonCtx) -> Option<Result<RecObs, (ErrObs, String)>>;
    fn owned_next(r: &mut Self::Reader, ctx: &mut MonCtx) -> Option<Result<RecObs, (ErrObs, String)>>;
    fn read_set(r: &mut Self::Reader, set: &mut Self::Set, n: Option<usize>) -> Option<Result<(), (ErrObs, String)>>;
    fn iter_set(set: &Self::Set, ctx: &mut MonCtx) -> Vec<RecObs>;
    fn set_len(set: &Self::Set) -> usize;
    fn shrink_set(set: &mut Self::Set);
    fn set_monitors(set: &Self::Set, ctx: &mut MonCtx);
    fn position(r: &Self::Reader) -> Option<(u64, u64)>;
    fn seek(r: &mut Self::Reader, line: u64, byte: u64) -> Result<(), (ErrObs, String)>;
    fn set_policy(r: Self::Reader, pol: SimPolicy) -> Self::Reader;
    fn drain(r: Self::Reader, ctx: &mut MonCtx, max: usize) -> Vec<Out>;
    /// the owned-record iterator of the reader (`records()` if `borrowed`, else `into_records()`)
    /// taken through `plan` (see `run_plan`): size hint before every step, then the step
    fn stepped(r: Self::Reader, borrowed: bool, plan: &[(u8, usize)]) -> Vec<((usize, Option<usize>), Out)>;
}

/// One entry of `plan` = one step on the iterator itself (not on an adaptor that would hide its own
/// `nth`): kind 0 = `next()`, 1 = `nth(k)`, 2 = `by_ref().skip(k).next()`, 3 = `by_ref().step_by(k + 1)`
/// polled twice (two entries come back). Before every step `size_hint()` is recorded.
fn run_plan<I, T, E>(it: &mut I, plan: &[(u8, usize)], conv: &dyn Fn(Result<T, E>) -> Out) -> Vec<((usize, Option<usize>), Out)>
where
    I: Iterator<Item = Result<T, E>>,
{
    let mut v = vec![];
    let mut put = |hint: (usize, Option<usize>), item: Option<Result<T, E>>| {
        v.push((hint, match item {
            None => Out::End,
            Some(x) => conv(x),
        }))
    };
    for (kind, k) in plan {
        let hint = it.size_hint();
        match kind {
            0 => put(hint, it.next()),
            1 => put(hint, it.nth(*k)),
            2 => put(hint, it.by_ref().skip(*k).next()),
            _ => {
                let mut sb = it.by_ref().step_by(*k + 1);
                let a = sb.next();
                let b = sb.next();
                put(hint, a);
                put((0, None), b);
            }
        }
    }
    v
}

/// C20 for the owned-record iterators of a reader: the iterator of a second, identical reader is
/// taken through a seeded plan of `next` / `nth(k)` / `skip(k)` / `step_by(k)` steps with the size
/// hint queried before each; every item has to be the one a plain drain of the first reader put at
/// that index (skipped items count whatever they are, error items included), and every size hint has
/// to bracket the number of items the plain drain still had to come. Returns (rule, detail).
pub fn stepped_drain(scn: &ReadScn, cfg: &Cfg, seed: u64) -> Option<(String, String)> {
    match scn.fmt {
        Fmt::Fasta => stepped_drain_api::<Fa>(scn, cfg, seed),
        Fmt::Fastq => stepped_drain_api::<Fq>(scn, cfg, seed),
    }
}

fn stepped_drain_api<A: Api>(scn: &ReadScn, cfg: &Cfg, seed: u64) -> Option<(String, String)> {
    if cfg.pause.is_some() || !cfg.faults.is_empty() || scn.profile == PATH_PROFILE || scn.profile == FIFO_PROFILE || scn.input.len() > 100_000 {
        return None;
    }
    let mk = || {
        let budget = 64 * (scn.input.len() as u64 + cfg.cap as u64) + 4096 + 2 * cfg.intr_burst.map(|b| b.1 as u64).unwrap_or(0);
        let seam = new_seam(4 * budget);
        seam.borrow_mut().growth_limit = 8 * (scn.input.len() + cfg.cap);
        let src = SimSource::new(Rc::new(scn.input.clone()), cfg, seam.clone());
        let pol = SimPolicy::new(cfg.policy.clone(), seam.clone());
        A::new(src, cfg.cap.max(3), pol)
    };
    let rng = Rng::new(seed ^ 0x5ced);
    let borrowed = rng.chance(1, 2);
    // the reference: plain next() calls until the end has been reported twice
    let max = 2 * scn.input.len() + 16;
    let plain: Vec<(u8, usize)> = vec![(0, 0); max];
    let all = match vcore::catch(|| A::stepped(mk(), borrowed, &plain)) {
        Ok(v) => v,
        Err(_) => return None, // (panics of plain reading are C06 / C01 / C02 findings)
    };
    let n = match all.iter().position(|(_, o)| matches!(o, Out::End)) {
        Some(i) => i,
        None => return None,
    };
    if all[n..].iter().any(|(_, o)| !matches!(o, Out::End)) {
        return None; // not sticky: reported by the drain rules
    }
    let full: Vec<&Out> = all[..n].iter().map(|(_, o)| o).collect();
    // the plan
    let mut plan: Vec<(u8, usize)> = vec![];
    let mut covered = 0usize;
    while covered < n + 3 && plan.len() < 64 {
        let step = match rng.below(8) {
            0..=2 => (0u8, 0usize),
            3 | 4 => (1, rng.range(0, 4)),
            5 | 6 => (2, rng.range(0, 4)),
            _ => (3, rng.range(0, 3)),
        };
        covered += match step.0 {
            0 => 1,
            1 | 2 => step.1 + 1,
            _ => 2 * (step.1 + 1),
        };
        plan.push(step);
    }
    let got = match vcore::catch(|| A::stepped(mk(), borrowed, &plan)) {
        Ok(v) => v,
        Err(p) => return Some(("reader_iter_panic".into(), format!("{} of a reader taken through the steps {:?}: {}", if borrowed { "records()" } else { "into_records()" }, plan, p))),
    };
    // judge
    let which = if borrowed { "records()" } else { "into_records()" };
    let mut i = 0usize; // index of the next item of the plain drain
    let mut g = got.iter();
    for (si, (kind, k)) in plan.iter().enumerate() {
        // (index skipped to, polls)
        let polls: Vec<usize> = match kind {
            0 => vec![0],
            1 | 2 => vec![*k],
            _ => vec![0, *k], // step_by(k+1): first item at once, then k skipped
        };
        for (pi, skip) in polls.iter().enumerate() {
            let (hint, item) = match g.next() {
                Some(x) => x,
                None => return None,
            };
            let remaining = n.saturating_sub(i);
            if pi == 0 && (hint.0 > remaining || hint.1.map_or(false, |h| h < remaining)) {
                return Some(("reader_iter_size_hint".into(), format!("{}: before step {} of {:?} size_hint() = {:?}, but {} item(s) were still to come (a plain drain yields {} items)", which, si, plan, hint, remaining, n)));
            }
            let j = i.saturating_add(*skip);
            let want: &Out = if j < n { full[j] } else { &Out::End };
            if item != want {
                return Some(("reader_iter_step".into(), format!("{}: step {} of {:?} ({}) returned {} but item {} of a plain drain is {} ({} items in all)", which, si, plan, match kind { 0 => "next".to_string(), 1 => format!("nth({})", k), 2 => format!("skip({}).next()", k), _ => format!("step_by({}) poll {}", k + 1, pi) }, brief_out(item), j, brief_out(want), n)));
            }
            i = j.saturating_add(1);
        }
    }
    None
}

fn brief_out(o: &Out) -> String {
    let s = format!("{:?}", o);
    if s.len() > 160 {
        format!("{}...", &s[..160])
    } else {
        s
    }
}

pub struct Fa;
pub struct Fq;

fn fa_err(e: fasta::Error) -> (ErrObs, String) {
    let msg = e.to_string();
    let o = match e {
        fasta::Error::Io(e) => ErrObs::Io(crate::scn::io_label(&e)),
        fasta::Error::InvalidStart { line, found } => ErrObs::InvalidStart {
            line: line as u64,
            found,
            id: None,
        },
        fasta::Error::BufferLimit => ErrObs::BufferLimit,
    };
    (o, msg)
}

fn fq_err(e: fastq::Error) -> (ErrObs, String) {
    let msg = e.to_string();
    let o = match e {
        fastq::Error::Io(e) => ErrObs::Io(crate::scn::io_label(&e)),
        fastq::Error::InvalidStart { found, pos } => ErrObs::InvalidStart {
            line: pos.line,
            found,
            id: pos.id,
        },
        fastq::Error::InvalidSep { found, pos } => ErrObs::InvalidSep {
            line: pos.line,
            found,
            id: pos.id,
        },
        fastq::Error::UnequalLengths { seq, qual, pos } => ErrObs::UnequalLengths {
            line: pos.line,
            seq,
            qual,
            id: pos.id,
        },
        fastq::Error::UnexpectedEnd { pos } => ErrObs::UnexpectedEnd {
            line: pos.line,
            id: pos.id,
        },
        fastq::Error::BufferLimit => ErrObs::BufferLimit,
    };
    (o, msg)
}

pub fn fa_obs(r: &fasta::RefRecord) -> RecObs {
    use fasta::Record;
    // The way the lines are walked varies with the record (a pure function of it): external
    // iteration, internal iteration from either end (`fold` / `rfold`, which an iterator may
    // override), and internal iteration of a partly consumed iterator. All of them are the same
    // view of the record.
    let head = r.head();
    let sel = head.iter().fold(r.seq().len() as u64, |h, b| h.wrapping_mul(31).wrapping_add(*b as u64)) % 6;
    let lines: Vec<Vec<u8>> = match sel {
        0 | 1 | 2 => r.seq_lines().map(|l| l.to_vec()).collect(),
        3 => {
            let mut v = vec![];
            r.seq_lines().for_each(|l| v.push(l.to_vec()));
            v
        }
        4 => {
            let mut v = r.seq_lines().rfold(vec![], |mut a, l| {
                a.push(l.to_vec());
                a
            });
            v.reverse();
            v
        }
        _ => {
            let mut it = r.seq_lines();
            let mut v = vec![];
            if let Some(l) = it.next() {
                v.push(l.to_vec());
            }
            let back = it.next_back().map(|l| l.to_vec());
            it.for_each(|l| v.push(l.to_vec()));
            v.extend(back);
            v
        }
    };
    let mut seq = vec![];
    for l in &lines {
        seq.extend_from_slice(l);
    }
    RecObs {
        head: r.head().to_vec(),
        lines,
        seq,
        qual: vec![],
    }
}

pub fn fq_obs(r: &fastq::RefRecord) -> RecObs {
    use fastq::Record;
    RecObs {
        head: r.head().to_vec(),
        lines: vec![],
        seq: r.seq().to_vec(),
        qual: r.qual().to_vec(),
    }
}

impl Api for Fa {
    type Reader = fasta::Reader<SimSource, SimPolicy>;
    type Set = fasta::RecordSet;
    fn fmt() -> Fmt {
        Fmt::Fasta
    }
    fn new(src: SimSource, cap: usize, pol: SimPolicy) -> Self::Reader {
        fasta::Reader::with_capacity(src, cap).set_policy(pol)
    }
    fn next(r: &mut Self::Reader, ctx: &mut MonCtx) -> Option<Result<RecObs, (ErrObs, String)>> {
        match r.next() {
            None => None,
            Some(Err(e)) => Some(Err(fa_err(e))),
            Some(Ok(rec)) => {
                let o = fa_obs(&rec);
                monitors::fasta_record(&rec, &o, ctx);
                Some(Ok(o))
            }
        }
    }
    fn owned_next(r: &mut Self::Reader, ctx: &mut MonCtx) -> Option<Result<RecObs, (ErrObs, String)>> {
        match r.records().next() {
            None => None,
            Some(Err(e)) => Some(Err(fa_err(e))),
            Some(Ok(rec)) => {
                monitors::fasta_owned(&rec, ctx);
                Some(Ok(RecObs {
                    head: rec.head.clone(),
                    // an owned FASTA record has no line structure; judged on head + seq
                    lines: vec![],
                    seq: rec.seq.clone(),
                    qual: vec![],
                }))
            }
        }
    }
    fn read_set(r: &mut Self::Reader, set: &mut Self::Set, n: Option<usize>) -> Option<Result<(), (ErrObs, String)>> {
        let res = match n {
            None => r.read_record_set(set),
            Some(n) => r.read_record_set_exact(set, Some(n)),
        };
        res.map(|x| x.map_err(fa_err))
    }
    fn iter_set(set: &Self::Set, ctx: &mut MonCtx) -> Vec<RecObs> {
        let mut v = vec![];
        for rec in set {
            let o = fa_obs(&rec);
            monitors::fasta_record(&rec, &o, ctx);
            v.push(o);
        }
        v
    }
    fn set_len(set: &Self::Set) -> usize {
        set.len()
    }
    fn shrink_set(set: &mut Self::Set) {
        set.shrink_buffer_to_fit();
        let _ = set.buf_capacity();
        let _ = set.is_empty();
    }
    fn set_monitors(set: &Self::Set, ctx: &mut MonCtx) {
        monitors::fasta_set(set, ctx);
    }
    fn position(r: &Self::Reader) -> Option<(u64, u64)> {
        r.position().map(|p| (p.line(), p.byte()))
    }
    fn seek(r: &mut Self::Reader, line: u64, byte: u64) -> Result<(), (ErrObs, String)> {
        r.seek(&fasta::Position::new(line, byte)).map_err(fa_err)
    }
    fn set_policy(r: Self::Reader, pol: SimPolicy) -> Self::Reader {
        r.set_policy(pol)
    }
    fn drain(r: Self::Reader, ctx: &mut MonCtx, max: usize) -> Vec<Out> {
        let mut it = r.into_records();
        let mut outs = vec![];
        let mut nones = 0;
        // errors in a row: a reader that keeps refusing (BufferLimit) never reaches the end; 40
        // repetitions show that as well as 4 x input length would
        let mut errs_in_a_row = 0;
        while outs.len() < max && nones < 2 && errs_in_a_row < 40 {
            match it.next() {
                None => {
                    nones += 1;
                    errs_in_a_row = 0;
                    outs.push(Out::End);
                }
                Some(Err(e)) => {
                    errs_in_a_row += 1;
                    let (o, m) = fa_err(e);
                    outs.push(Out::Err(o, m));
                }
                Some(Ok(rec)) => {
                    nones = 0;
                    errs_in_a_row = 0;
                    monitors::fasta_owned(&rec, ctx);
                    outs.push(Out::Rec(RecObs {
                        head: rec.head,
                        lines: vec![],
                        seq: rec.seq,
                        qual: vec![],
                    }));
                }
            }
        }
        if nones >= 2 {
            // the end has been reported twice: skipping ahead (nth / skip / step_by use it) must not
            // find anything either, and must return
            for k in [0usize, 3, 1000] {
                match it.nth(k) {
                    None => outs.push(Out::End),
                    Some(Ok(rec)) => outs.push(Out::Rec(RecObs { head: rec.head, lines: vec![], seq: rec.seq, qual: vec![] })),
                    Some(Err(e)) => {
                        let (o, m) = fa_err(e);
                        outs.push(Out::Err(o, m));
                    }
                }
            }
        }
        outs
    }
    fn stepped(r: Self::Reader, borrowed: bool, plan: &[(u8, usize)]) -> Vec<((usize, Option<usize>), Out)> {
        let conv = |x: Result<fasta::OwnedRecord, fasta::Error>| match x {
            Ok(rec) => Out::Rec(RecObs { head: rec.head, lines: vec![], seq: rec.seq, qual: vec![] }),
            Err(e) => {
                let (o, m) = fa_err(e);
                Out::Err(o, m)
            }
        };
        let mut r = r;
        if borrowed {
            let mut it = r.records();
            run_plan(&mut it, plan, &conv)
        } else {
            let mut it = r.into_records();
            run_plan(&mut it, plan, &conv)
        }
    }
}

impl Api for Fq {
    type Reader = fastq::Reader<SimSource, SimPolicy>;
    type Set = fastq::RecordSet;
    fn fmt() -> Fmt {
        Fmt::Fastq
    }
    fn new(src: SimSource, cap: usize, pol: SimPolicy) -> Self::Reader {
        fastq::Reader::with_capacity(src, cap).set_policy(pol)
    }
    fn next(r: &mut Self::Reader, ctx: &mut MonCtx) -> Option<Result<RecObs, (ErrObs, String)>> {
        match r.next() {
            None => None,
            Some(Err(e)) => Some(Err(fq_err(e))),
            Some(Ok(rec)) => {
                let o = fq_obs(&rec);
                monitors::fastq_record(&rec, &o, ctx);
                Some(Ok(o))
            }
        }
    }
    fn owned_next(r: &mut Self::Reader, ctx: &mut MonCtx) -> Option<Result<RecObs, (ErrObs, String)>> {
        match r.records().next() {
            None => None,
            Some(Err(e)) => Some(Err(fq_err(e))),
            Some(Ok(rec)) => {
                monitors::fastq_owned(&rec, ctx);
                Some(Ok(RecObs {
                    head: rec.head.clone(),
                    lines: vec![],
                    seq: rec.seq.clone(),
                    qual: rec.qual.clone(),
                }))
            }
        }
    }
    fn read_set(r: &mut Self::Reader, set: &mut Self::Set, n: Option<usize>) -> Option<Result<(), (ErrObs, String)>> {
        let res = match n {
            None => r.read_record_set(set),
            Some(n) => r.read_record_set_exact(set, Some(n)),
        };
        res.map(|x| x.map_err(fq_err))
    }
    fn iter_set(set: &Self::Set, ctx: &mut MonCtx) -> Vec<RecObs> {
        let mut v = vec![];
        for rec in set {
            let o = fq_obs(&rec);
            monitors::fastq_record(&rec, &o, ctx);
            v.push(o);
        }
        v
    }
    fn set_len(set: &Self::Set) -> usize {
        set.len()
    }
    fn shrink_set(set: &mut Self::Set) {
        set.shrink_buffer_to_fit();
        let _ = set.buf_capacity();
        let _ = set.is_empty();
    }
    fn set_monitors(set: &Self::Set, ctx: &mut MonCtx) {
        monitors::fastq_set(set, ctx);
    }
    fn position(r: &Self::Reader) -> Option<(u64, u64)> {
        let p = r.position();
        Some((p.line(), p.byte()))
    }
    fn seek(r: &mut Self::Reader, line: u64, byte: u64) -> Result<(), (ErrObs, String)> {
        r.seek(&fastq::Position::new(line, byte)).map_err(fq_err)
    }
    fn set_policy(r: Self::Reader, pol: SimPolicy) -> Self::Reader {
        r.set_policy(pol)
    }
    fn drain(r: Self::Reader, ctx: &mut MonCtx, max: usize) -> Vec<Out> {
        let mut it = r.into_records();
        let mut outs = vec![];
        let mut nones = 0;
        // errors in a row: a reader that keeps refusing (BufferLimit) never reaches the end; 40
        // repetitions show that as well as 4 x input length would
        let mut errs_in_a_row = 0;
        while outs.len() < max && nones < 2 && errs_in_a_row < 40 {
            match it.next() {
                None => {
                    nones += 1;
                    errs_in_a_row = 0;
                    outs.push(Out::End);
                }
                Some(Err(e)) => {
                    errs_in_a_row += 1;
                    let (o, m) = fq_err(e);
                    outs.push(Out::Err(o, m));
                }
                Some(Ok(rec)) => {
                    nones = 0;
                    errs_in_a_row = 0;
                    monitors::fastq_owned(&rec, ctx);
                    outs.push(Out::Rec(RecObs {
                        head: rec.head,
                        lines: vec![],
                        seq: rec.seq,
                        qual: rec.qual,
                    }));
                }
            }
        }
        if nones >= 2 {
            // the end has been reported twice: skipping ahead (nth / skip / step_by use it) must not
            // find anything either, and must return
            for k in [0usize, 3, 1000] {
                match it.nth(k) {
                    None => outs.push(Out::End),
                    Some(Ok(rec)) => outs.push(Out::Rec(RecObs { head: rec.head, lines: vec![], seq: rec.seq, qual: rec.qual })),
                    Some(Err(e)) => {
                        let (o, m) = fq_err(e);
                        outs.push(Out::Err(o, m));
                    }
                }
            }
        }
        outs
    }
    fn stepped(r: Self::Reader, borrowed: bool, plan: &[(u8, usize)]) -> Vec<((usize, Option<usize>), Out)> {
        let conv = |x: Result<fastq::OwnedRecord, fastq::Error>| match x {
            Ok(rec) => Out::Rec(RecObs { head: rec.head, lines: vec![], seq: rec.seq, qual: rec.qual }),
            Err(e) => {
                let (o, m) = fq_err(e);
                Out::Err(o, m)
            }
        };
        let mut r = r;
        if borrowed {
            let mut it = r.records();
            run_plan(&mut it, plan, &conv)
        } else {
            let mut it = r.into_records();
            run_plan(&mut it, plan, &conv)
        }
    }
}

/// Resolve `SeekRec(j)` targets: (line, byte) per model item, supplied by the caller.
pub type SeekTargets = Vec<Option<(u64, u64)>>;

pub const PATH_PROFILE: &str = "from_path";
/// like PATH_PROFILE, but the path is a FIFO (what `from_path("/dev/stdin")` or a process
/// substitution gives): its metadata length is 0 and it delivers the data in pieces
pub const FIFO_PROFILE: &str = "from_fifo";

/// Feeds `data` into the FIFO at `path` in the pieces given by `script` (each at most 4096 bytes,
/// i.e. one atomic pipe write). A piece is written only when the pipe is empty, so every read of
/// the other side sees the rest of exactly one piece: the sequence of read results is a function
/// of the script and of the reader's requests, not of thread timing. The helper thread is the
/// only real concurrency in SIM-IO.
fn fifo_writer(path: std::path::PathBuf, data: Vec<u8>, script: Vec<u32>, done: std::sync::Arc<std::sync::atomic::AtomicBool>) -> std::thread::JoinHandle<()> {
    use std::io::Write;
    use std::os::unix::io::AsRawFd;
    use std::sync::atomic::Ordering;
    std::thread::spawn(move || {
        // blocks until the reader has opened its end
        let mut f = match std::fs::OpenOptions::new().write(true).open(&path) {
            Ok(f) => f,
            Err(_) => return,
        };
        let pieces: Vec<usize> = script.iter().filter(|x| **x > 0).map(|x| (*x as usize).min(4096)).collect();
        let mut pos = 0;
        let mut i = 0;
        loop {
            // wait until everything written so far has been taken
            loop {
                if done.load(Ordering::SeqCst) {
                    return;
                }
                let mut n: libc::c_int = 0;
                let rc = unsafe { libc::ioctl(f.as_raw_fd(), libc::FIONREAD, &mut n) };
                if rc != 0 || n == 0 {
                    break;
                }
                std::thread::yield_now();
            }
            if pos >= data.len() {
                return; // closes the write end: the reader sees the end of the input
            }
            let k = if pieces.is_empty() { 4096 } else { pieces[i % pieces.len()] };
            i += 1;
            let end = (pos + k).min(data.len());
            if f.write_all(&data[pos..end]).is_err() {
                return; // reader gone
            }
            pos = end;
        }
    })
}

/// Readers constructed from a file path (`from_path`, `from_path_with_capacity`): the input is
/// written to a scratch file, read with next() until the end was seen twice; the policy seam is
/// still ours (set_policy), the byte source is the real file.
fn drive_path(scn: &ReadScn, cfg: &Cfg) -> RunLog {
    use std::sync::atomic::{AtomicBool, AtomicU64, Ordering};
    static COUNTER: AtomicU64 = AtomicU64::new(0);
    let seam = new_seam(0);
    let mut log = RunLog::default();
    let path = std::env::temp_dir().join(format!("sim-io-{}-{}.tmp", std::process::id(), COUNTER.fetch_add(1, Ordering::Relaxed)));
    let fifo = scn.profile == FIFO_PROFILE;
    let done = std::sync::Arc::new(AtomicBool::new(false));
    let mut writer = None;
    if fifo {
        let c = match std::ffi::CString::new(path.to_string_lossy().as_bytes()) {
            Ok(c) => c,
            Err(_) => return log,
        };
        if unsafe { libc::mkfifo(c.as_ptr(), 0o600) } != 0 {
            return log;
        }
        writer = Some(fifo_writer(path.clone(), scn.input.clone(), cfg.script.clone(), done.clone()));
    } else if std::fs::write(&path, &scn.input).is_err() {
        return log;
    }
    let with_cap = cfg.cap != 65536;
    let pol = SimPolicy::new(cfg.policy.clone(), seam.clone());
    let mut ctx = MonCtx::new(&scn.mon, 1);
    macro_rules! run {
        ($module:ident, $obs:ident, $err:ident) => {{
            let opened = vcore::catch(|| {
                if with_cap {
                    $module::Reader::from_path_with_capacity(&path, cfg.cap.max(3))
                } else {
                    $module::Reader::from_path(&path)
                }
            });
            match opened {
                Err(p) => {
                    log.steps.push(Step { op: Op::Next, out: classify_panic(format!("while opening the file: {}", p)), pos: None, target: None, restarted: None, seam: OpSeam::default(), calls_from: 0, calls_to: 0, mon: vec![], slots_changed: vec![] });
                    log.aborted = true;
                }
                Ok(Err(_)) => {}
                Ok(Ok(rd)) => {
                    let mut rd = rd.set_policy(pol);
                    for op in &scn.ops {
                        if !matches!(op, Op::Next) {
                            continue;
                        }
                        seam.borrow_mut().begin_op();
                        let res = vcore::catch(|| match rd.next() {
                            None => Out::End,
                            Some(Err(e)) => {
                                let (o, m) = $err(e);
                                Out::Err(o, m)
                            }
                            Some(Ok(r)) => Out::Rec($obs(&r)),
                        });
                        let out = match res {
                            Ok(o) => o,
                            Err(p) => classify_panic(p),
                        };
                        let aborted = matches!(out, Out::Panic(_) | Out::Hang(_));
                        let pos = if aborted { None } else { path_pos!($module, rd) };
                        log.out_hash = vcore::mix(log.out_hash, hash_out(&out));
                        log.steps.push(Step { op: Op::Next, out, pos, target: None, restarted: None, seam: seam.borrow().op.clone(), calls_from: 0, calls_to: 0, mon: std::mem::take(&mut ctx.found), slots_changed: vec![] });
                        if aborted {
                            log.aborted = true;
                            break;
                        }
                    }
                }
            }
        }};
    }
    macro_rules! path_pos {
        (fasta, $rd:expr) => {
            $rd.position().map(|p| (p.line(), p.byte()))
        };
        (fastq, $rd:expr) => {{
            let p = $rd.position();
            Some((p.line(), p.byte()))
        }};
    }
    match scn.fmt {
        Fmt::Fasta => run!(fasta, fa_obs, fa_err),
        Fmt::Fastq => run!(fastq, fq_obs, fq_err),
    }
    if let Some(w) = writer {
        // release a writer that still waits (reader gone early, or it never opened the FIFO)
        done.store(true, Ordering::SeqCst);
        {
            use std::os::unix::fs::OpenOptionsExt;
            let _ = std::fs::OpenOptions::new().read(true).custom_flags(libc::O_NONBLOCK).open(&path);
        }
        let _ = w.join();
    }
    let _ = std::fs::remove_file(&path);
    let s = seam.borrow();
    log.all_grows = s.all_grows.clone();
    log.total_steps = s.total_steps;
    log.log_hash = vcore::mix(s.hash, log.out_hash);
    log
}

pub fn drive(scn: &ReadScn, cfg: &Cfg, targets: &SeekTargets) -> RunLog {
    if scn.profile == PATH_PROFILE || scn.profile == FIFO_PROFILE {
        return drive_path(scn, cfg);
    }
    match scn.fmt {
        Fmt::Fasta => drive_api::<Fa>(scn, cfg, targets),
        Fmt::Fastq => drive_api::<Fq>(scn, cfg, targets),
    }
}

fn classify_panic(msg: String) -> Out {
    if msg.contains(HANG_MARK) {
        Out::Hang(msg)
    } else {
        Out::Panic(msg)
    }
}

fn drive_api<A: Api>(scn: &ReadScn, cfg: &Cfg, targets: &SeekTargets) -> RunLog {
    let budget = 64 * (scn.input.len() as u64 + cfg.cap as u64) + 4096 + 2 * cfg.intr_burst.map(|b| b.1 as u64).unwrap_or(0);
    let seam = new_seam(budget);
    seam.borrow_mut().growth_limit = 8 * (scn.input.len() + cfg.cap);
    let data = Rc::new(scn.input.clone());
    let src = SimSource::new(data.clone(), cfg, seam.clone());
    let pol = SimPolicy::new(cfg.policy.clone(), seam.clone());
    let mut reader: Option<A::Reader> = Some(A::new(src, cfg.cap.max(3), pol));
    let mut sets: Vec<A::Set> = (0..N_SLOTS).map(|_| A::Set::default()).collect();
    // snapshot of each slot after its last *successful* fill
    let mut snaps: Vec<Option<Vec<RecObs>>> = vec![None; N_SLOTS];
    let mut seen_pos: Vec<(u64, u64)> = vec![];
    let mut log = RunLog::default();
    // origin of the current reader in input coordinates (changed by Restart)
    let mut origin: (u64, u64) = (0, 0);
    let mut ctx = MonCtx::new(&scn.mon, scn.mon.iter_seed ^ 0x5151);
    let no_mon = Monitors::default();
    let mut quiet = MonCtx::new(&no_mon, 0);
    let mut lifted = false;

    for op in &scn.ops {
        if reader.is_none() {
            break;
        }
        seam.borrow_mut().begin_op();
        let calls_from = seam.borrow().calls;
        let mut written_slot: Option<usize> = None;
        let mut seek_target: Option<(u64, u64)> = None;
        let mut restarted: Option<(usize, u64, u64)> = None;
        let out: Out = loop {
          let o: Out = match op {
            Op::Restart(j) => match targets.get(*j).copied().flatten() {
                Some((line, byte)) => {
                    drop(reader.take());
                    let src = SimSource::new_from(data.clone(), byte as usize, cfg, seam.clone());
                    let pol = SimPolicy::new(cfg.policy.clone(), seam.clone());
                    reader = Some(A::new(src, cfg.cap.max(3), pol));
                    origin = (line - 1, byte);
                    seen_pos.clear();
                    restarted = Some((*j, origin.0, origin.1));
                    Out::Noop
                }
                None => Out::Noop,
            },
            Op::Next => {
                let r = reader.as_mut().unwrap();
                ctx.fresh = true;
                let res = vcore::catch(|| A::next(r, &mut ctx));
                ctx.fresh = false;
                match res {
                    Ok(None) => Out::End,
                    Ok(Some(Ok(o))) => Out::Rec(o),
                    Ok(Some(Err((e, m)))) => Out::Err(e, m),
                    Err(p) => classify_panic(p),
                }
            }
            Op::OwnedNext => {
                let r = reader.as_mut().unwrap();
                match vcore::catch(|| A::owned_next(r, &mut ctx)) {
                    Ok(None) => Out::End,
                    Ok(Some(Ok(o))) => Out::Rec(o),
                    Ok(Some(Err((e, m)))) => Out::Err(e, m),
                    Err(p) => classify_panic(p),
                }
            }
            Op::ReadSet(slot) | Op::ReadSetExact(slot, _) => {
                let slot = *slot % N_SLOTS;
                let n = match op {
                    Op::ReadSetExact(_, n) => Some((*n).max(1)),
                    _ => None,
                };
                let r = reader.as_mut().unwrap();
                let set = &mut sets[slot];
                written_slot = Some(slot);
                match vcore::catch(|| A::read_set(r, set, n)) {
                    Ok(None) => {
                        // the set's contents after a `None` are not specified: no snapshot
                        snaps[slot] = None;
                        let set = &sets[slot];
                        let _ = vcore::catch(|| A::set_monitors(set, &mut ctx));
                        Out::End
                    }
                    Ok(Some(Ok(()))) => {
                        let set = &sets[slot];
                        ctx.fresh = true;
                        let res = vcore::catch(|| {
                            let v = A::iter_set(set, &mut ctx);
                            A::set_monitors(set, &mut ctx);
                            (v, A::set_len(set))
                        });
                        ctx.fresh = false;
                        match res {
                            Ok((v, len)) => {
                                if len != v.len() {
                                    ctx.found.push((
                                        "set_len".into(),
                                        format!("RecordSet::len() = {} but iteration yields {} records", len, v.len()),
                                    ));
                                }
                                snaps[slot] = Some(v.clone());
                                Out::Set(v)
                            }
                            Err(p) => {
                                snaps[slot] = None;
                                classify_panic(format!("while iterating the freshly filled set: {}", p))
                            }
                        }
                    }
                    Ok(Some(Err((e, m)))) => {
                        snaps[slot] = None;
                        // C19: a (reused) set that comes back from a failed read still has to
                        // survive serialisation as what it is
                        let set = &sets[slot];
                        let _ = vcore::catch(|| A::set_monitors(set, &mut ctx));
                        Out::Err(e, m)
                    }
                    Err(p) => {
                        snaps[slot] = None;
                        classify_panic(p)
                    }
                }
            }
            Op::SeekRec(_) | Op::SeekSeen(_) => {
                let target = match op {
                    Op::SeekRec(j) => targets.get(*j).copied().flatten().and_then(|(l, b)| {
                        if b >= origin.1 && l > origin.0 {
                            Some((l - origin.0, b - origin.1))
                        } else {
                            None
                        }
                    }),
                    Op::SeekSeen(k) => {
                        if seen_pos.is_empty() {
                            None
                        } else {
                            Some(seen_pos[*k % seen_pos.len()])
                        }
                    }
                    _ => None,
                };
                seek_target = target;
                match target {
                    None => Out::Noop,
                    Some((line, byte)) => {
                        let r = reader.as_mut().unwrap();
                        match vcore::catch(|| A::seek(r, line, byte)) {
                            Ok(Ok(())) => Out::SeekOk,
                            Ok(Err((e, m))) => Out::Err(e, m),
                            Err(p) => classify_panic(p),
                        }
                    }
                }
            }
            Op::IterSet(slot) => {
                let slot = *slot % N_SLOTS;
                let set = &sets[slot];
                match vcore::catch(|| A::iter_set(set, &mut ctx)) {
                    Ok(v) => Out::Iter(v),
                    Err(p) => classify_panic(p),
                }
            }
            Op::ShrinkSet(slot) => {
                let slot = *slot % N_SLOTS;
                let set = &mut sets[slot];
                match vcore::catch(|| A::shrink_set(set)) {
                    Ok(()) => Out::Noop,
                    Err(p) => classify_panic(p),
                }
            }
            Op::SetPolicy(spec) => {
                let r = reader.take().unwrap();
                reader = Some(A::set_policy(r, SimPolicy::new(spec.clone(), seam.clone())));
                Out::Noop
            }
            Op::Drain => {
                let r = reader.take().unwrap();
                let max = 4 * scn.input.len() + 16;
                match vcore::catch(|| A::drain(r, &mut ctx, max)) {
                    Ok(v) => Out::Drained(v),
                    Err(p) => classify_panic(p),
                }
            }
          };
          if let (Out::Err(ErrObs::BufferLimit, _), Some(spec), false) = (&o, &cfg.lift, lifted) {
              if matches!(op, Op::Next | Op::OwnedNext | Op::ReadSet(_) | Op::ReadSetExact(_, _)) && reader.is_some() {
                  lifted = true;
                  let r = reader.take().unwrap();
                  reader = Some(A::set_policy(r, SimPolicy::new(spec.clone(), seam.clone())));
                  continue;
              }
          }
          break o;
        };
        let aborted = matches!(out, Out::Panic(_) | Out::Hang(_));
        // position (pure observation)
        let pos = if aborted {
            None
        } else {
            reader.as_ref().and_then(|r| A::position(r))
        };
        if let (Some(p), Out::Rec(_)) = (pos, &out) {
            if matches!(op, Op::Next | Op::OwnedNext) && !seen_pos.contains(&p) {
                seen_pos.push(p);
            }
        }
        // earlier filled sets must stay unchanged
        let mut slots_changed = vec![];
        if !aborted {
            for s in 0..N_SLOTS {
                if Some(s) == written_slot {
                    continue;
                }
                if let Some(snap) = &snaps[s] {
                    // (sets of hundreds of records: re-read after set-level operations and every
                    // 32nd step only, the comparison is linear in the set)
                    if snap.len() > 64 && !matches!(op, Op::ReadSet(_) | Op::ReadSetExact(_, _) | Op::IterSet(_) | Op::ShrinkSet(_) | Op::Restart(_) | Op::Drain | Op::SetPolicy(_)) && log.steps.len() % 32 != 31 {
                        continue;
                    }
                    let set = &sets[s];
                    match vcore::catch(|| A::iter_set(set, &mut quiet)) {
                        Ok(v) => {
                            if &v != snap {
                                slots_changed.push(s);
                            }
                        }
                        Err(_) => slots_changed.push(s),
                    }
                }
            }
        }
        let calls_to = seam.borrow().calls;
        let step = Step {
            op: op.clone(),
            out,
            pos,
            target: seek_target,
            restarted,
            seam: seam.borrow().op.clone(),
            calls_from,
            calls_to,
            mon: std::mem::take(&mut ctx.found),
            slots_changed,
        };
        log.out_hash = vcore::mix(log.out_hash, hash_out(&step.out) ^ step.pos.map(|p| p.0 * 1000003 + p.1 + 1).unwrap_or(0));
        log.steps.push(step);
        if aborted {
            // a reader that panicked is discarded (its internal state is unspecified)
            log.aborted = true;
            drop(reader.take());
            break;
        }
    }
    let s = seam.borrow();
    log.log_hash = vcore::mix(s.hash, log.out_hash);
    log.total_steps = s.total_steps;
    log.all_grows = s.all_grows.clone();
    log.reads = s.total_reads;
    log.interrupts = s.total_interrupts;
    log.false_eofs = s.false_eofs;
    log.faults = s.total_faults;
    log.seeks = s.total_seeks;
    log.eofs = s.total_eofs;
    log.full_nl = s.full_nl;
    log.full_cr = s.full_cr;
    log.short_reads = s.short_reads;
    log.unchanged = std::mem::take(&mut ctx.unchanged);
    log.sink_short = ctx.sink_short;
    log.sink_intr = ctx.sink_intr;
    log.serde_checked = ctx.serde_checked;
    log.iter_histories = ctx.iter_histories;
    log.iter_steps = ctx.iter_steps;
    log
}

fn hash_bytes(h: u64, b: &[u8]) -> u64 {
    let mut x = h ^ (b.len() as u64).wrapping_mul(0x9E3779B97F4A7C15);
    for c in b {
        x = (x ^ *c as u64).wrapping_mul(0x100000001b3);
    }
    x
}

pub fn hash_rec(r: &RecObs) -> u64 {
    let mut h = hash_bytes(1, &r.head);
    h = hash_bytes(h, &r.seq);
    h = hash_bytes(h, &r.qual);
    for l in &r.lines {
        h = hash_bytes(h, l);
    }
    h
}

pub fn hash_out(o: &Out) -> u64 {
    match o {
        Out::Rec(r) => vcore::mix(1, hash_rec(r)),
        Out::End => 2,
        Out::Err(e, m) => vcore::mix(3, hash_bytes(hash_bytes(0, format!("{:?}", e).as_bytes()), m.as_bytes())),
        Out::Set(v) => v.iter().fold(4, |h, r| vcore::mix(h, hash_rec(r))),
        Out::SeekOk => 5,
        Out::Iter(v) => v.iter().fold(6, |h, r| vcore::mix(h, hash_rec(r))),
        Out::Noop => 7,
        Out::Panic(m) => hash_bytes(8, m.as_bytes()),
        Out::Hang(m) => hash_bytes(9, m.as_bytes()),
        Out::Drained(v) => v.iter().fold(10, |h, o| vcore::mix(h, hash_out(o))),
    }
}
