//! Property checks built on read scenarios: C01 C02 C04 C05 C06 C13 C17 C19 C20.
//! (C03, C09, C12, C14 and the writer / allocation checks live in their own modules.)

use crate::drive::{drive, Out, RunLog};
use crate::gen::*;
use crate::judge::{judge, JudgeOpts};
use crate::model::{self, Model};
use crate::scn::*;
use serde_json::{json, Value};
use std::collections::BTreeSet;
use vcore::{Check, Rng, RunResult, Stats, Tier, Violation};

pub fn components() -> Value {
    json!({
        "real": [
            "all of /repo/src reached by the readers/writers (fasta.rs, fastq.rs, lib.rs fill_buf/trim_cr, policy.rs), built from the current working tree without the hook cfg",
            "buffer-redux 1.0.2, memchr",
            "serde / serde_derive / serde_json / ciborium (C19)",
            "from_path / from_fifo profiles (C01, C02, C06, C09): a real scratch file or a real FIFO in std::env::temp_dir(); the FIFO is fed by one helper thread that writes a piece (<= 4096 bytes, one atomic pipe write) only when the pipe is empty, so the sequence of read results is a function of the scenario, not of timing",
            "std::io::BufWriter in front of a SimSink (C10, C11)"
        ],
        "stub": [
            "SimSource (io::Read + io::Seek) in place of files/pipes: scripted chunk sizes, Interrupted, injected errors",
            "SimSink (io::Write): scripted short writes, Interrupted, injected errors; optionally a gathering write_vectored that stops inside any slice",
            "SimPolicy (BufPolicy): recording wrapper around the real built-in policies or scripted growing/refusing policies",
            "counting global allocator (delegates to System)"
        ]
    })
}

pub fn op_name(op: &Op) -> &'static str {
    match op {
        Op::Next => "Next",
        Op::OwnedNext => "OwnedNext",
        Op::ReadSet(_) => "ReadSet",
        Op::ReadSetExact(_, _) => "ReadSetExact",
        Op::SeekRec(_) => "SeekRec",
        Op::SeekSeen(_) => "SeekSeen",
        Op::IterSet(_) => "IterSet",
        Op::SetPolicy(_) => "SetPolicy",
        Op::Drain => "Drain",
        Op::Restart(_) => "Restart",
        Op::ShrinkSet(_) => "ShrinkSet",
    }
}

pub fn out_kind(o: &Out) -> &'static str {
    match o {
        Out::Rec(_) => "rec",
        Out::End => "end",
        Out::Err(e, _) => e.kind(),
        Out::Set(_) => "set",
        Out::SeekOk => "seek_ok",
        Out::Iter(_) => "iter",
        Out::Noop => "noop",
        Out::Panic(_) => "panic",
        Out::Hang(_) => "hang",
        Out::Drained(_) => "drained",
    }
}

fn hash_bytes(b: &[u8]) -> u64 {
    let mut h: u64 = 0xcbf29ce484222325;
    for c in b {
        h ^= *c as u64;
        h = h.wrapping_mul(0x100000001b3);
    }
    h
}

pub fn leading_blank_bytes(input: &[u8]) -> usize {
    let mut i = 0;
    loop {
        if input.get(i) == Some(&b'\n') {
            i += 1;
        } else if input.get(i) == Some(&b'\r') && input.get(i + 1) == Some(&b'\n') {
            i += 2;
        } else {
            return i;
        }
    }
}

/// features of a scenario for known-finding matchers
pub fn features(scn: &ReadScn, cfg: &Cfg) -> BTreeSet<String> {
    let mut f = BTreeSet::new();
    f.insert(format!("fmt:{}", if scn.fmt == Fmt::Fasta { "fasta" } else { "fastq" }));
    for op in &scn.ops {
        f.insert(format!("op:{}", op_name(op)));
    }
    if !cfg.faults.is_empty() {
        f.insert("fault:io".into());
    }
    if cfg.policy.can_refuse() {
        f.insert("policy:can_refuse".into());
    }
    if cfg.script.iter().any(|x| *x == 0) {
        f.insert("fault:interrupted".into());
    }
    if scn.fmt == Fmt::Fasta && leading_blank_bytes(&scn.input) + 1 > cfg.cap {
        f.insert("lead_blank>=cap".into());
    }
    if scn.input.contains(&b'\r') {
        f.insert("input:cr".into());
    }
    if scn.input.last() != Some(&b'\n') {
        f.insert("input:no_final_lf".into());
    }
    f
}

/// statistics and reach probes inferred from seam observations only
/// Returns the (input, event log) hash when the run was non-trivial; the caller inserts one hash
/// per *scenario* into the `nontrivial` set.
pub fn record_stats(scn: &ReadScn, cfg: &Cfg, log: &RunLog, st: &mut Stats) -> Option<u64> {
    st.count("step.source_reads", log.reads);
    st.count("step.source_seeks", log.seeks);
    st.count("step.policy_calls", log.all_grows.len() as u64);
    st.count("step.total_seam_calls", log.total_steps);
    st.count("fault.interrupted_read", log.interrupts);
    st.count("fault.short_read", log.short_reads);
    if scn.profile == crate::drive::FIFO_PROFILE {
        st.probe("probe.reader_opened_on_a_fifo");
    }
    if log.false_eofs > 0 {
        st.count("fault.zero_length_read_before_the_end", log.false_eofs);
    }
    let mut nontrivial = false;
    let mut first_fill_seen = false;
    let mut prev_kind = "start";
    for s in &log.steps {
        st.count(&format!("op.{}", op_name(&s.op)), 1);
        st.count(&format!("outcome.{}", out_kind(&s.out)), 1);
        for k in &s.seam.faults {
            st.count(&format!("fault.io_error.{}", k), 1);
            nontrivial = true;
        }
        let grew = s.seam.grows.iter().any(|g| g.1.is_some());
        let refused = s.seam.grows.iter().any(|g| g.1.is_none());
        if grew {
            st.probe("probe.growth");
            nontrivial = true;
        }
        if refused {
            st.probe("probe.growth_refused");
            st.count("fault.policy_refusal", 1);
            nontrivial = true;
        }
        if s.seam.read_bytes > 0 {
            if first_fill_seen && s.seam.seeks == 0 {
                st.probe("probe.refill");
                nontrivial = true;
                if s.seam.grows.is_empty() {
                    st.probe("probe.compaction_refill");
                }
            }
            first_fill_seen = true;
        }
        match &s.op {
            Op::SeekRec(_) | Op::SeekSeen(_) => {
                if matches!(s.out, Out::SeekOk) {
                    if s.seam.seeks == 0 {
                        st.probe("probe.seek_in_buffer");
                    } else {
                        st.probe("probe.seek_real");
                    }
                }
            }
            Op::ReadSetExact(_, _) => {
                if grew {
                    st.probe("probe.exact_batch_forced_growth");
                }
            }
            _ => {}
        }
        if s.seam.interrupts > 0 {
            nontrivial = true;
        }
        let flags = (s.seam.read_bytes > 0) as u64
            | (grew as u64) << 1
            | (refused as u64) << 2
            | ((s.seam.seeks > 0) as u64) << 3
            | ((!s.seam.faults.is_empty()) as u64) << 4
            | ((s.seam.interrupts > 0) as u64) << 5
            | ((s.seam.eofs > 0) as u64) << 6;
        let h = hash_bytes(
            format!(
                "{:?}|{}|{}|{}|{}",
                scn.fmt,
                op_name(&s.op),
                prev_kind,
                flags,
                out_kind(&s.out)
            )
            .as_bytes(),
        );
        st.set_insert("states", h);
        prev_kind = out_kind(&s.out);
    }
    if log.full_nl > 0 {
        st.probe("probe.lf_last_buffered_byte");
    }
    if log.full_cr > 0 {
        st.probe("probe.cr_last_buffered_byte");
    }
    if scn.fmt == Fmt::Fasta && leading_blank_bytes(&scn.input) + 1 > cfg.cap {
        st.probe("probe.leading_blank_exceeds_capacity");
    }
    if log.eofs > 0 && scn.input.len() % cfg.cap == 0 && !scn.input.is_empty() {
        st.probe("probe.eof_with_full_buffer_candidate");
    }
    st.count("step.serde_roundtrips", log.serde_checked);
    st.count("step.iterator_histories", log.iter_histories);
    st.count("step.iterator_steps", log.iter_steps);
    st.count("fault.sink_short_write", log.sink_short);
    st.count("fault.sink_interrupted", log.sink_intr);
    if nontrivial {
        Some(vcore::mix(hash_bytes(&scn.input), log.log_hash))
    } else {
        None
    }
}

/// Seek targets per model item: positions of records, and for FASTQ of the invalid group
/// (C05: "seeking to the position of an invalid FASTQ record reproduces its error"). The FASTA
/// invalid start and the end of input are not record positions.
pub fn seek_targets(m: &Model) -> Vec<Option<(u64, u64)>> {
    m.items
        .iter()
        .map(|i| {
            if i.is_rec() || (m.fmt == Fmt::Fastq && !i.errs.is_empty() && !i.end_ok) {
                Some((i.line, i.byte))
            } else {
                None
            }
        })
        .collect()
}

pub fn parse_scn(v: &Value) -> Option<ReadScn> {
    serde_json::from_value(v.clone()).ok()
}

pub struct ReadCheck {
    pub id: &'static str,
}

const C13_ONLY: &[&str] = &["panic", "hang", "wrong_batch"];
const C19_ONLY: &[&str] = &["panic", "hang"];
const C17_ONLY: &[&str] = &["wrong_error", "wrong_error_after_refusal", "message", "panic", "hang"];
const C20_ONLY: &[&str] = &["not_end_after_end", "end_not_sticky", "drain_no_end", "panic", "hang"];

impl ReadCheck {
    fn judge_opts(&self) -> JudgeOpts<'static> {
        match self.id {
            "C05" => JudgeOpts { prop: "C05", check_pos: true, mon_prefixes: &[], check_msg: false, only: None, exact_after_seek: true },
            "C13" => JudgeOpts { prop: "C13", check_pos: false, mon_prefixes: &["C13."], check_msg: false, only: Some(C13_ONLY), exact_after_seek: false },
            "C17" => JudgeOpts { prop: "C17", check_pos: false, mon_prefixes: &[], check_msg: true, only: Some(C17_ONLY), exact_after_seek: false },
            "C19" => JudgeOpts { prop: "C19", check_pos: false, mon_prefixes: &["C19."], check_msg: false, only: Some(C19_ONLY), exact_after_seek: false },
            "C20" => JudgeOpts { prop: "C20", check_pos: false, mon_prefixes: &["C20."], check_msg: false, only: Some(C20_ONLY), exact_after_seek: false },
            "C01" => JudgeOpts { prop: "C01", check_pos: false, mon_prefixes: &[], check_msg: false, only: None, exact_after_seek: false },
            "C02" => JudgeOpts { prop: "C02", check_pos: false, mon_prefixes: &[], check_msg: false, only: None, exact_after_seek: false },
            "C04" => JudgeOpts { prop: "C04", check_pos: false, mon_prefixes: &[], check_msg: false, only: None, exact_after_seek: false },
            // (iterating the records handed out is part of C06: the iterator monitors of C20 run in one
            // scenario in four, their findings are reported as C06.C20_<rule>)
            "C06" => JudgeOpts { prop: "C06", check_pos: false, mon_prefixes: &["C20."], check_msg: false, only: None, exact_after_seek: false },
            other => panic!("no judge options for {}", other),
        }
    }
}

fn sizes(tier: Tier) -> (usize, usize) {
    // (max records, max noise bytes)
    match tier {
        Tier::Quick => (6, 80),
        Tier::Thorough => (16, 400),
    }
}

fn big_fasta(rng: &Rng) -> Vec<u8> {
    // 70–300 KiB of valid records at the default capacity (thorough only)
    let target = rng.range(70_000, 300_000);
    let mut v = Vec::with_capacity(target + 1000);
    let crlf = rng.chance(1, 3);
    let t: &[u8] = if crlf { b"\r\n" } else { b"\n" };
    let mut i = 0;
    while v.len() < target {
        v.extend_from_slice(format!(">r{} d", i).as_bytes());
        v.extend_from_slice(t);
        let nl = rng.range(0, 4);
        for _ in 0..nl {
            let w = if rng.chance(1, 50) { rng.range(1000, 70_000) } else { rng.range(1, 120) };
            for _ in 0..w {
                v.push(*rng.pick(b"ACGT"));
            }
            v.extend_from_slice(t);
        }
        i += 1;
    }
    v
}

fn big_fastq(rng: &Rng) -> Vec<u8> {
    let target = rng.range(70_000, 300_000);
    let mut v = Vec::with_capacity(target + 1000);
    let crlf = rng.chance(1, 3);
    let t: &[u8] = if crlf { b"\r\n" } else { b"\n" };
    let mut i = 0;
    while v.len() < target {
        let w = if rng.chance(1, 50) { rng.range(1000, 70_000) } else { rng.range(0, 150) };
        v.extend_from_slice(format!("@r{} d", i).as_bytes());
        v.extend_from_slice(t);
        for _ in 0..w {
            v.push(*rng.pick(b"ACGT"));
        }
        v.extend_from_slice(t);
        v.push(b'+');
        v.extend_from_slice(t);
        for _ in 0..w {
            v.push(*rng.pick(b"IJK#"));
        }
        v.extend_from_slice(t);
        i += 1;
    }
    v
}

/// one record beyond 64 KiB / 1 MiB / 8 MiB (see `gen::huge_input`), read to the end
fn huge_scn(rng: &Rng, fmt: Fmt) -> ReadScn {
    let (input, class, t) = huge_input(rng, fmt);
    let cfg = huge_cfg(rng, t, input.len());
    let n = input.iter().filter(|b| **b == if fmt == Fmt::Fasta { b'>' } else { b'@' }).count() + 3;
    let ops = match rng.below(4) {
        0 => vec![Op::ReadSet(0); n],
        1 => (0..n).map(|_| Op::ReadSetExact(0, 2)).collect(),
        _ => ops_next_to_end(n),
    };
    ReadScn { fmt, input, cfgs: vec![cfg], ops, mon: Monitors::default(), profile: class }
}

/// readers opened by path: tiny, empty and ordinary files, default or explicit capacity
fn path_scn(rng: &Rng, fmt: Fmt, max_recs: usize, max_noise: usize) -> ReadScn {
    let (input, _) = any_input(rng, fmt, max_recs, max_noise);
    let input = if rng.chance(1, 4) { input[..input.len().min(rng.range(0, 3))].to_vec() } else { input };
    let mut cfg = Cfg::plain(if rng.chance(1, 2) { 65536 } else { rng.range(3, 64) });
    cfg.policy = gen_permissive_policy(rng, input.len());
    let n = model::build(fmt, &input).items.len();
    let mut profile = crate::drive::PATH_PROFILE;
    if rng.chance(1, 3) {
        // the path names a FIFO: length 0 in the metadata, data arrives in pieces (see drive::fifo_writer)
        profile = crate::drive::FIFO_PROFILE;
        cfg.script = match rng.below(4) {
            0 => vec![],
            1 => vec![rng.range(1, 9) as u32],
            2 => vec![rng.range(1, 40) as u32, rng.range(1, 400) as u32],
            _ => vec![rng.range(1, 4096) as u32],
        };
    }
    ReadScn { fmt, input, cfgs: vec![cfg], ops: ops_next_to_end(n), mon: Monitors::default(), profile: profile.into() }
}

pub fn gen_read_scn(id: &str, rng: &Rng, tier: Tier) -> ReadScn {
    let (max_recs, max_noise) = sizes(tier);
    match id {
        "C01" | "C02" => {
            let fmt = if id == "C01" { Fmt::Fasta } else { Fmt::Fastq };
            if rng.chance(1, 1500) {
                return path_scn(rng, fmt, max_recs, max_noise);
            }
            if rng.chance(1, 3000) {
                return huge_scn(rng, fmt);
            }
            if fmt == Fmt::Fasta && rng.chance(1, 20000) {
                // hundreds of thousands of refills before the first record: work per refill must not
                // pile up (recursion depth, retained state). A stack overflow kills the process:
                // the scenario is marked risky (in-flight file, see DESIGN 17)
                let crlf = rng.chance(1, 3);
                let n = rng.range(150_000, 1_200_000);
                let mut input: Vec<u8> = Vec::with_capacity(2 * n + 16);
                for _ in 0..n {
                    input.extend_from_slice(if crlf { b"\r\n" } else { b"\n" });
                }
                input.extend_from_slice(b">a b\nAC\nG\n");
                let cfg = Cfg::plain(rng.range(3, 12));
                return ReadScn { fmt, input, cfgs: vec![cfg], ops: ops_next_to_end(1), mon: Monitors::default(), profile: "deep_blank_prefix".into() };
            }
            if rng.chance(1, 4000) {
                // interrupt storm / short reads into a large buffer
                let input = many_small_records(rng, fmt, rng.range(2000, 6000));
                let cfg = storm_cfg(rng);
                let n = input.iter().filter(|b| **b == if fmt == Fmt::Fasta { b'>' } else { b'@' }).count();
                return ReadScn { fmt, input, cfgs: vec![cfg], ops: ops_next_to_end(n), mon: Monitors::default(), profile: "interrupt_storm".into() };
            }
            if (tier == Tier::Thorough && rng.chance(1, 1500)) || rng.chance(1, 25000) {
                let input = if fmt == Fmt::Fasta { big_fasta(rng) } else { big_fastq(rng) };
                let mut cfg = Cfg::plain(65536);
                cfg.script = match rng.below(3) {
                    0 => vec![],
                    1 => vec![rng.range(1000, 70_000) as u32, 0, rng.range(1, 70_000) as u32],
                    _ => vec![rng.range(512, 9000) as u32],
                };
                let n = input.iter().filter(|b| **b == if fmt == Fmt::Fasta { b'>' } else { b'@' }).count();
                return ReadScn { fmt, input, cfgs: vec![cfg], ops: ops_next_to_end(n), mon: Monitors::default(), profile: "big_default_capacity".into() };
            }
            let (input, class) = any_input(rng, fmt, max_recs, max_noise);
            let cfg = gen_cfg(rng, &input, true);
            let m = model::build(fmt, &input);
            let n = m.items.len();
            let ops = match rng.below(10) {
                0 => (0..n + 2).map(|_| Op::OwnedNext).collect(),
                1 => {
                    let k = rng.range(0, n);
                    let mut o: Vec<Op> = (0..k).map(|_| Op::Next).collect();
                    o.push(Op::Drain);
                    o
                }
                _ => ops_next_to_end(n),
            };
            let mut ops = ops;
            let mut profile = class.to_string();
            if rng.chance(1, 12) {
                // the reader is reconfigured in mid-stream (`set_policy` on the used reader, also after
                // the end): another permissive policy must not disturb the stream of records
                let at = rng.below(ops.len() as u64 + 1) as usize;
                ops.insert(at, Op::SetPolicy(gen_permissive_policy(rng, input.len())));
                profile.push_str("/policy_swapped");
            }
            ReadScn { fmt, input, cfgs: vec![cfg], ops, mon: Monitors::default(), profile }
        }
        "C04" | "C05" => {
            let fmt = if rng.chance(1, 2) { Fmt::Fasta } else { Fmt::Fastq };
            if id == "C05" && ((tier == Tier::Thorough && rng.chance(1, 4000)) || rng.chance(1, 150_000)) {
                // more than 2^16 records / lines: counters must not wrap
                let k = rng.range(66_000, 70_000);
                let mut input = Vec::with_capacity(k * 8);
                for i in 0..k {
                    match fmt {
                        Fmt::Fasta => input.extend_from_slice(if i % 7 == 0 { b">a\nC\nG\n" } else { b">a\nC\n" }),
                        Fmt::Fastq => input.extend_from_slice(b"@a\nC\n+\nI\n"),
                    }
                }
                let cfg = Cfg { cap: rng.range(64, 4096), policy: PolicySpec::Std, script: vec![], cuts: vec![], faults: vec![], intr_burst: None, lift: None, pause: None };
                let mut ops = ops_next_to_end(k);
                // and a few seeks far into the file
                for _ in 0..6 {
                    ops.push(Op::SeekRec(rng.range(65_000, k - 1)));
                    ops.push(Op::Next);
                    ops.push(Op::Next);
                }
                return ReadScn { fmt, input, cfgs: vec![cfg], ops, mon: Monitors::default(), profile: "many_records".into() };
            }
            let (input, class) = if rng.chance(3, 4) {
                match fmt {
                    Fmt::Fasta => {
                        let a = gen_afasta(rng, max_recs + 2, false);
                        let e = *rng.pick(&[Ending::Lf, Ending::Lf, Ending::Crlf, Ending::Mixed]);
                        let lead = if rng.chance(1, 5) { rng.small(30) } else { 0 };
                        let blank = if rng.chance(1, 5) { 2 } else { 0 };
                        (render_fasta(rng, &a, e, rng.chance(3, 4), lead, blank), "valid")
                    }
                    Fmt::Fastq => {
                        let a = gen_afastq(rng, max_recs + 2, false);
                        let e = *rng.pick(&[Ending::Lf, Ending::Lf, Ending::Crlf, Ending::Mixed]);
                        if rng.chance(1, 4) {
                            let at = rng.below(a.recs.len() as u64) as usize;
                            fastq_defect(rng, &a, e, at)
                        } else {
                            (render_fastq(rng, &a, e, rng.chance(3, 4), rng.small(2)), "valid")
                        }
                    }
                }
            } else {
                any_input(rng, fmt, max_recs, max_noise)
            };
            let mut cfg = gen_cfg(rng, &input, true);
            if id == "C05" && rng.chance(1, 4) {
                // "from any reader state": also after an I/O error has been returned
                let est_calls = 2 * input.len() / cfg.cap.max(1) + 6;
                cfg.faults.push(Fault { call: rng.small(est_calls), kind: rng.pick(FAULT_KINDS).to_string(), payload: gen_payload(rng) });
            }
            let mut later_policy = None;
            if id == "C05" && rng.chance(1, 5) {
                // "from any reader state": also after a size-limit refusal, and after the caller has
                // reacted to one by installing a more permissive policy
                cfg.policy = gen_refusing_policy(rng, cfg.cap);
                if rng.chance(1, 2) {
                    later_policy = Some(gen_permissive_policy(rng, input.len()));
                }
            }
            let m = model::build(fmt, &input);
            let n = m.items.len();
            let mix = if id == "C04" {
                OpMix { next: 3, owned: 2, set: 3, exact: 3, seek: if rng.chance(1, 3) { 2 } else { 0 }, iter: 1 }
            } else {
                OpMix { next: 4, owned: 1, set: 2, exact: 2, seek: 5, iter: 0 }
            };
            let len = 1 + rng.small(23);
            let mut ops = gen_history(rng, mix, len, n, rng.chance(1, 2));
            if rng.chance(1, 8) {
                let at = rng.below(ops.len() as u64 + 1) as usize;
                ops.insert(at, Op::ShrinkSet(rng.below(N_SLOTS as u64) as usize));
            }
            if rng.chance(1, 8) {
                // a (growing) policy installed in mid-stream must not disturb positions or the stream
                let at = rng.below(ops.len() as u64 + 1) as usize;
                ops.insert(at, Op::SetPolicy(gen_permissive_policy(rng, input.len())));
            }
            if let Some(p) = later_policy {
                let at = rng.below(ops.len() as u64 + 1) as usize;
                ops.insert(at, Op::SetPolicy(p));
            }
            if id == "C04" && rng.chance(1, 6) && n > 1 {
                // a second reader on (a tail of) the same input, re-using the record sets
                let at = rng.below(ops.len() as u64 + 1) as usize;
                ops.insert(at, Op::Restart(rng.below(n as u64) as usize));
                for _ in 0..rng.range(1, 6) {
                    ops.push(Op::ReadSet(rng.below(N_SLOTS as u64) as usize));
                }
            }
            ReadScn { fmt, input, cfgs: vec![cfg], ops, mon: Monitors::default(), profile: class.into() }
        }
        "C06" => {
            let fmt = if rng.chance(1, 2) { Fmt::Fasta } else { Fmt::Fastq };
            if rng.chance(1, 1000) {
                return path_scn(rng, fmt, max_recs, max_noise);
            }
            let (input, class) = any_input(rng, fmt, max_recs, max_noise);
            let mut cfg = gen_cfg(rng, &input, true);
            let profile = rng.below(4);
            if profile == 1 || profile == 3 {
                cfg.policy = gen_refusing_policy(rng, cfg.cap);
            }
            if profile >= 2 {
                let est_calls = 2 * input.len() / cfg.cap.max(1) + 6;
                for _ in 0..rng.range(1, 2) {
                    cfg.faults.push(Fault { call: rng.small(est_calls), kind: rng.pick(FAULT_KINDS).to_string(), payload: gen_payload(rng) });
                }
            }
            let m = model::build(fmt, &input);
            let n = m.items.len();
            let mix = OpMix { next: 5, owned: 1, set: 2, exact: 2, seek: 1, iter: 2 };
            let len = 3 + rng.small(27);
            let mut ops = gen_history(rng, mix, len, n, false);
            if rng.chance(1, 6) {
                let at = rng.below(ops.len() as u64 + 1) as usize;
                ops.insert(at, Op::SetPolicy(if rng.chance(1, 2) { gen_refusing_policy(rng, cfg.cap) } else { gen_permissive_policy(rng, input.len()) }));
            }
            if rng.chance(1, 5) {
                ops.push(Op::Drain);
            }
            let label = ["plain", "refusing_policy", "io_faults", "refusing_policy+io_faults"][profile as usize];
            let mon = if rng.chance(1, 4) { Monitors { views: false, iters: true, serde: false, unchanged: false, iter_seed: rng.next_u64() } } else { Monitors::default() };
            ReadScn { fmt, input, cfgs: vec![cfg], ops, mon, profile: format!("{}/{}", class, label) }
        }
        "C13" | "C19" | "C20" => {
            let fmt = if id == "C20" && rng.chance(2, 3) { Fmt::Fasta } else if rng.chance(1, 2) { Fmt::Fasta } else { Fmt::Fastq };
            if id == "C19" && rng.chance(1, 300) {
                // several KiB inside one reader buffer; record sets that start far from offset 0
                let input = many_small_records(rng, fmt, rng.range(9000, 20000));
                let cfg = Cfg { cap: rng.range(8192, 16384), policy: PolicySpec::Std, script: vec![], cuts: vec![], faults: vec![], intr_burst: None, lift: None, pause: None };
                let mut ops = vec![];
                for _ in 0..rng.range(3, 12) {
                    for _ in 0..rng.range(0, 60) {
                        ops.push(Op::Next);
                    }
                    ops.push(if rng.chance(1, 2) { Op::ReadSetExact(rng.below(3) as usize, rng.range(1, 40)) } else { Op::ReadSet(rng.below(3) as usize) });
                }
                let mon = Monitors { views: false, iters: false, serde: true, unchanged: false, iter_seed: rng.next_u64() };
                return ReadScn { fmt, input, cfgs: vec![cfg], ops, mon, profile: "kib_buffer".into() };
            }
            let (input, class) = if rng.chance(4, 5) {
                match fmt {
                    Fmt::Fasta => {
                        let mut a = gen_afasta(rng, max_recs, true);
                        if id == "C20" {
                            // 0..12 sequence lines
                            for r in a.recs.iter_mut() {
                                let nl = rng.range(0, 12);
                                r.1 = (0..nl).map(|_| (0..rng.range(1, 5)).map(|_| *rng.pick(b"ACGT")).collect()).collect();
                            }
                        }
                        let e = *rng.pick(&[Ending::Lf, Ending::Crlf, Ending::Mixed]);
                        let blank = if rng.chance(1, 3) { 3 } else { 0 };
                        (render_fasta(rng, &a, e, rng.chance(3, 4), rng.small(3), blank), "valid_wild")
                    }
                    Fmt::Fastq => {
                        let a = gen_afastq(rng, max_recs, true);
                        let e = *rng.pick(&[Ending::Lf, Ending::Crlf, Ending::Mixed]);
                        (render_fastq(rng, &a, e, rng.chance(3, 4), rng.small(2)), "valid_wild")
                    }
                }
            } else {
                any_input(rng, fmt, max_recs, max_noise)
            };
            let mut cfg = gen_cfg(rng, &input, false);
            if id == "C19" && rng.chance(1, 5) {
                // reads that fail after the set had been filled before (refused growth, I/O error):
                // what comes back is still a record set that has to survive serialisation
                if rng.chance(1, 2) {
                    cfg.policy = gen_refusing_policy(rng, cfg.cap);
                } else {
                    let est_calls = 2 * input.len() / cfg.cap.max(1) + 6;
                    cfg.faults.push(Fault { call: 1 + rng.small(est_calls), kind: rng.pick(FAULT_KINDS).to_string(), payload: gen_payload(rng) });
                }
            }
            let m = model::build(fmt, &input);
            let n = m.items.len();
            let mix = OpMix { next: 4, owned: 2, set: 2, exact: 2, seek: 0, iter: 1 };
            let len = 1 + rng.small(10);
            let mut ops = gen_history(rng, mix, len, n, true);
            if id == "C20" && rng.chance(1, 8) {
                // a growing input: one read returns Ok(0) although more data follow. Whatever the
                // reader makes of the data it got, once it has reported the end it has to stay there
                let est_calls = input.len() / cfg.cap.max(1) + 2;
                cfg.pause = Some(if rng.chance(1, 3) { 0 } else { rng.small(est_calls) });
                ops = (0..n + 2).map(|_| match rng.below(4) { 0 => Op::OwnedNext, 1 => Op::ReadSet(0), _ => Op::Next }).collect();
                // the end must be sticky for one iterator object: the drain polls on after the end
                if rng.chance(1, 2) {
                    ops.clear();
                } else {
                    ops.truncate(rng.below(ops.len() as u64 + 1) as usize);
                }
                ops.push(Op::Drain);
            } else if id == "C20" && rng.chance(1, 3) {
                ops.push(Op::Drain);
            }
            if id != "C20" && rng.chance(1, 6) && n > 1 {
                let at = rng.below(ops.len() as u64 + 1) as usize;
                ops.insert(at, Op::Restart(rng.below(n as u64) as usize));
                for _ in 0..rng.range(1, 5) {
                    ops.push(Op::ReadSet(rng.below(N_SLOTS as u64) as usize));
                }
            }
            let mon = Monitors {
                views: id == "C13" || id == "C19",
                iters: id == "C20",
                serde: id == "C19",
                unchanged: false,
                iter_seed: rng.next_u64(),
            };
            let mut profile = class.to_string();
            if id == "C20" && cfg.pause.is_none() && input.len() < 4000 && rng.chance(1, 10) {
                // one owned-record iterator polled across refusals of a policy that agrees later:
                // error items may come, but once the iterator has reported the end it stays there,
                // and the size hint (checked by the stepped plan) keeps bracketing what is left
                cfg.policy = PolicySpec::RefuseFirst(rng.range(1, 4));
                let lens = rough_record_lens(&input);
                if !lens.is_empty() {
                    cfg.cap = (*rng.pick(&lens) / rng.range(1, 3)).max(3);
                }
                let k = rng.range(0, n + 1);
                ops = (0..k).map(|_| Op::Next).collect();
                ops.push(Op::Drain);
                profile.push_str("/refuse_first");
            }
            ReadScn { fmt, input, cfgs: vec![cfg], ops, mon, profile }
        }
        "C17" => {
            if rng.chance(1, 3000) {
                return huge_scn(rng, Fmt::Fastq);
            }
            let fmt = if rng.chance(2, 5) { Fmt::Fasta } else { Fmt::Fastq };
            let (input, class, defect_at) = match fmt {
                Fmt::Fasta => {
                    let crlf = rng.chance(1, 3);
                    let t: &[u8] = if crlf { b"\r\n" } else { b"\n" };
                    let mut v = vec![];
                    for _ in 0..rng.range(0, 40) {
                        v.extend_from_slice(if rng.chance(1, 8) { if crlf { b"\n" } else { b"\r\n" } } else { t });
                    }
                    let at = v.len();
                    v.push(*rng.pick(b"@;AC +x\x00\xff\t'\\\r\r"));
                    v.extend_from_slice(&hostile(rng, 8).into_iter().filter(|b| *b != b'\n').collect::<Vec<u8>>());
                    if rng.chance(2, 3) {
                        v.extend_from_slice(t);
                        v.extend_from_slice(b">x\nACGT\n");
                    }
                    (v, "fasta_invalid_start", at)
                }
                Fmt::Fastq if rng.chance(1, 40) => {
                    let v = long_line_truncated(rng);
                    let m = model::build(Fmt::Fastq, &v);
                    let off = m.terminal().byte as usize;
                    (v, "long_line_truncated", off)
                }
                Fmt::Fastq => {
                    let a = gen_afastq(rng, 9, rng.chance(1, 4));
                    let e = *rng.pick(&[Ending::Lf, Ending::Lf, Ending::Crlf]);
                    let at = rng.below(a.recs.len() as u64) as usize;
                    let (v, label) = fastq_defect(rng, &a, e, at);
                    // byte offset where the defective record starts
                    let m = model::build(Fmt::Fastq, &v);
                    let off = m.terminal().byte as usize;
                    (v, label, off)
                }
            };
            let mut cfg = gen_cfg(rng, &input, true);
            if class == "long_line_truncated" && rng.chance(1, 2) {
                cfg.cap = rng.range(4096, input.len().max(4097));
            } else if rng.chance(2, 3) {
                // place the defect at offset -3..+3 around a buffer end
                let d = rng.range(0, 6) as i64 - 3;
                let k = rng.range(1, 3) as i64;
                let cap = ((defect_at as i64 + d) / k).max(3) as usize;
                cfg.cap = cap;
            }
            let m = model::build(fmt, &input);
            let n = m.items.len();
            let mut ops = match rng.below(6) {
                0 => vec![Op::ReadSet(0); n + 2],
                1 => (0..n + 2).map(|_| Op::ReadSetExact(0, 2)).collect(),
                _ => ops_next_to_end(n),
            };
            let mut profile = class.to_string();
            if rng.chance(1, 6) {
                // the error is reached after growth had been refused once and a permissive policy
                // was installed: the coordinates must still be the true ones
                cfg.policy = gen_refusing_policy(rng, cfg.cap);
                let k = rng.range(1, 4);
                let mut o: Vec<Op> = (0..k).map(|_| match rng.below(3) { 0 => Op::Next, 1 => Op::ReadSetExact(0, rng.range(2, 4)), _ => Op::ReadSet(0) }).collect();
                o.push(Op::SetPolicy(PolicySpec::Std));
                o.extend(ops_next_to_end(n));
                ops = o;
                profile.push_str("/refused_then_resumed");
            }
            if fmt == Fmt::Fastq && n > 0 && !profile.contains("refused") && rng.chance(1, 8) {
                // the error is reached (again) after a seek back to a record position - from any
                // state, also one in which a record-set read has already met the defective group and
                // deferred its error: the coordinates reported must be the same true ones
                let k = rng.range(0, n + 1);
                let mut o: Vec<Op> = (0..k).map(|_| match rng.below(4) { 0 | 1 => Op::Next, 2 => Op::ReadSetExact(0, rng.range(2, 4)), _ => Op::ReadSet(0) }).collect();
                o.push(Op::SeekRec(rng.below(n as u64) as usize));
                if rng.chance(1, 3) {
                    // ... or after a seek that failed because the source could not seek (every seek
                    // call of the source fails; seeks inside the buffer do not get that far)
                    cfg.faults.push(Fault { call: usize::MAX, kind: rng.pick(FAULT_KINDS).to_string(), payload: String::new() });
                    profile.push_str("/source_seek_fails");
                }
                if rng.chance(1, 2) {
                    o.extend(ops_next_to_end(n));
                } else {
                    o.extend(vec![Op::ReadSet(0); n + 2]);
                }
                ops = o;
                profile.push_str("/after_seek");
            }
            ReadScn { fmt, input, cfgs: vec![cfg], ops, mon: Monitors::default(), profile }
        }
        other => panic!("gen_read_scn: unknown id {}", other),
    }
}

pub fn run_read(jo: &JudgeOpts, scn: &ReadScn, st: &mut Stats) -> RunResult {
    let m = model::build(scn.fmt, &scn.input);
    let cfg = &scn.cfgs[0];
    let log = drive(scn, cfg, &seek_targets(&m));
    if let Some(h) = record_stats(scn, cfg, &log, st) {
        st.set_insert("nontrivial", h);
    }
    let mut v = judge(&m, scn, &log, jo);
    if jo.prop == "C20" && v.is_empty() && scn.mon.iter_seed % 3 == 0 {
        // the owned-record iterators of the reader itself, stepped with next / nth / skip / step_by
        // and asked for their size hint (a second and third reader on the same scenario)
        st.probe("probe.reader_iterator_stepped");
        if let Some((rule, d)) = crate::drive::stepped_drain(scn, cfg, scn.mon.iter_seed) {
            v.push(Violation::new(&format!("C20.{}", rule), d));
        }
    }
    if !v.is_empty() {
        let f = features(scn, cfg);
        for x in v.iter_mut() {
            x.features = f.clone();
        }
    }
    RunResult { violations: v, log_hash: log.log_hash }
}

impl Check for ReadCheck {
    fn id(&self) -> &str {
        self.id
    }
    fn engine(&self) -> &str {
        "sim-io"
    }
    fn budget(&self, tier: Tier) -> u64 {
        crate::budget_for(self.id(), tier)
    }
    fn generate(&self, rng: &Rng, tier: Tier, _idx: u64) -> Value {
        serde_json::to_value(gen_read_scn(self.id, rng, tier)).unwrap()
    }
    fn run(&self, scn: &Value, st: &mut Stats) -> RunResult {
        match parse_scn(scn) {
            Some(s) if !s.cfgs.is_empty() => run_read(&self.judge_opts(), &s, st),
            _ => RunResult {
                violations: vec![Violation::new("harness.bad_scenario", "scenario does not parse".into())],
                log_hash: 0,
            },
        }
    }
    fn shrink(&self, scn: &Value) -> Vec<Value> {
        match parse_scn(scn) {
            Some(s) => shrink_read(&s).into_iter().map(|x| serde_json::to_value(x).unwrap()).collect(),
            None => vec![],
        }
    }
    fn rule_text(&self) -> String {
        let what = match self.id {
            "C01" => "FASTA inputs (valid multi-record/multi-line LF/CRLF/mixed with blank lines, invalid starts, hostile-alphabet noise, binary, edge strings) x capacity (3..24, record length +-2, input length +-2, large, 64 KiB) x read-chunk script (all-at-once, 1 byte, fixed k, cyclic random with Interrupted) x forced cut offsets at line ends; read via next / records() / into_records() until end was seen repeatedly; every observation compared with the line-splitting reference model; rare profiles: interrupt storm, 64 KiB buffer with short reads, readers opened by path on regular files and on a FIFO (metadata length 0, data in pieces), one record beyond 64 KiB / 1 MiB / 8 MiB at capacities around that size, 150k-1.2M leading blank lines at capacity 3..12. The line lists of FASTA records are observed by external iteration, fold, rfold or fold of a partly consumed iterator, chosen by the record itself",
            "C02" => "FASTQ inputs (valid LF/CRLF/mixed-per-record with 0..5 trailing blank lines, one defect of each kind at a random record index, hostile noise, binary, edge strings) x capacity x chunk script x cuts; compared with the four-line reference model and its accepted-outcome sets; rare profiles as for C01 (path / FIFO readers; one giant group beyond 64 KiB / 1 MiB / 8 MiB - valid, truncated, wrong first byte, unequal lengths, bad separator - at capacities around that size with sources delivering 4 KiB..1 MiB pieces); ids of up to 66000 bytes",
            "C04" => "histories of Next / OwnedNext / ReadSet(slot) / ReadSetExact(slot,n) / SeekRec / IterSet / Restart(j) (fresh reader on the tail from record j, record sets kept) over 3 record-set slots, length 1..24 plus optional read-to-end tail, both formats, fault-free, growing policy; cursor model checks every delivered batch, exact counts, unchanged earlier sets",
            "C05" => "histories rich in seeks to model coordinates of every item (records and the invalid FASTQ group) from every state, one run in four with an injected I/O error (after which a successful seek must restore exact reading again); position() compared after every returned record and after set reads; reads after a seek compared with the model from the target on; one scenario in five starts with a refusing policy, half of those install a permissive one at a random later point",
            "C06" => "everything above plus refusing/limited policies, injected source errors on reads and seeks at random call indices, SetPolicy mid-stream, arbitrary continuation after errors and after end, iteration of sets whose fill failed; panic (catch_unwind), per-operation seam-step budget, membership and order of every record handed out; readers opened by path (regular file or FIFO; empty and 1..3-byte files)",
            "C13" => "accessor relations evaluated on every record handed out (next, owned, record sets) in histories over wild-byte inputs",
            "C17" => "FASTA: 0..40 leading blank lines then a non-'>' line (also one starting with CR); FASTQ: valid prefix of 0..8 records plus one defect; one run in six reaches the defect after a refused growth and set_policy(Std); one FASTQ run in eight reads 0..n items, seeks back to a record position and reaches the error (again) from there, a third of those with a source whose every seek call fails (the failed seek changes nothing, the reader meets the defect from where it was); capacity placed so the defect lies -3..+3 around a buffer end (or drawn freely); error fields compared with the model, message checked for line, found byte (escape_default), lengths and id; ids longer than 4 KiB and 64 KiB; 1 in 3000: one giant defective group beyond 64 KiB / 1 MiB / 8 MiB",
            "C19" => "serde_json round trip of every owned record and of every record set after each set read - freshly filled, or returned from a failed read (refusing policy / injected I/O error in one run of five) or from an end-of-input read; slots are reused, so stale offsets beyond len() occur; a KiB-buffer profile puts sets far from buffer offset 0 - through four formats: JSON text, serde_json::Value, CBOR (ciborium: length-prefixed sequences/maps, native byte strings) and a positional format of our own without field names (posfmt.rs, bincode/postcard style, not self-describing); after all routes of a record set it is serialised five more times into a sink that refuses a write call in the middle of the value (results discarded): what a failed serialisation leaves behind on the thread meets the routes of the next set",
            "C20" => "seeded histories of next / next_back / nth(k) / nth_back(k) steps on seq_lines() of every FASTA record handed out against a VecDeque model with len()/size_hint() checked before every step, nth/skip overshoot on SeqLines and both RecordSetIters, adaptors enumerate().rev(), enumerate from both ends, skip().rev(), zip().rev(), collect; RecordSetIter size hints and fusedness; RecordsIter/RecordsIntoIter stay at end; in one scenario in three a second reader's records() / into_records() is taken through a seeded plan of next / nth(k) / skip(k) / step_by(k) steps with size_hint() before each and compared item by item with a plain drain of a third reader (skipped items count whatever they are, hints bracket what is left); internal iteration (count, last, for_each/fold, rfold, rev().fold) of fresh and partly consumed iterators must cover exactly what is left; one run in eight reads a growing input (one read returns Ok(0) before the data ends): once the into_records() iterator has reported the end it keeps reporting the end (rule end_not_sticky, model-independent; with ordinary sources the rule covers every read operation)",
            _ => "",
        };
        format!("{}. A run counts as non-trivial when the reader had to refill, grow, was refused, was interrupted or hit an injected fault; distinct = distinct (input, full seam+outcome event log) hash.", what)
    }
    fn assumptions(&self) -> Vec<String> {
        vec![
            "reference model (sim-io/src/model.rs) and its accepted-outcome sets (DESIGN 4.3) are the specification".into(),
            "SimSource obeys the io::Read contract: bytes in order, and never Ok(0) before the end except in the growing-input profile of C20 (one Ok(0), then more data), where only the stickiness of the reported end is judged".into(),
            "sampling, not enumeration: a clean batch is evidence, not proof".into(),
        ]
    }
    fn components(&self) -> Value {
        components()
    }
    fn sample(&self, scn: &Value) -> Value {
        abbreviate(scn)
    }
    fn risky(&self, scn: &Value) -> bool {
        scenario_is_risky(scn)
    }
    fn expected_probes(&self) -> Vec<&'static str> {
        match self.id {
            "C05" => vec!["refill", "growth", "seek_in_buffer", "seek_real"],
            "C06" => vec!["refill", "growth", "growth_refused"],
            "C20" => vec!["refill", "growth", "reader_iterator_stepped"],
            _ => vec!["refill", "growth"],
        }
    }
}

/// an exact-count read with an astronomically large n may make a (changed) library try to
/// allocate that much: an allocation failure aborts the process
pub fn scenario_is_risky(scn: &Value) -> bool {
    if scn.get("profile").and_then(|p| p.as_str()).map(|p| p.starts_with("deep_")).unwrap_or(false) {
        return true;
    }
    let ops = scn.get("ops").or_else(|| scn.get("base").and_then(|b| b.get("ops"))).or_else(|| scn.get("read").and_then(|b| b.get("ops")));
    match ops.and_then(|o| o.as_array()) {
        Some(a) => a.iter().any(|op| op.get("ReadSetExact").and_then(|x| x.as_array()).and_then(|x| x.get(1)).and_then(|n| n.as_u64()).map(|n| n >= 1 << 20).unwrap_or(false)),
        None => false,
    }
}

pub fn abbreviate(scn: &Value) -> Value {
    let mut v = scn.clone();
    if let Some(s) = v.get("input").and_then(|x| x.as_str()) {
        if s.len() > 300 {
            let cut = (0..=300).rev().find(|i| s.is_char_boundary(*i)).unwrap_or(0);
            v["input"] = json!(format!("{}… ({} chars)", &s[..cut], s.len()));
        }
    }
    if let Some(ops) = v.get("ops").and_then(|x| x.as_array()) {
        if ops.len() > 40 {
            let n = ops.len();
            let mut o: Vec<Value> = ops[..40].to_vec();
            o.push(json!(format!("… {} more", n - 40)));
            v["ops"] = json!(o);
        }
    }
    v
}
