//! Counting global allocator: delegates to `System`, counts allocations and
//! reallocations of the current thread while armed. The counter is a
//! const-initialised thread-local `Cell`, so touching it never allocates.

use std::alloc::{GlobalAlloc, Layout, System};
use std::cell::Cell;

pub struct CountingAlloc;

thread_local! {
    static ARMED: Cell<bool> = const { Cell::new(false) };
    static COUNT: Cell<u64> = const { Cell::new(0) };
}

#[inline]
fn bump() {
    let _ = ARMED.try_with(|a| {
        if a.get() {
            let _ = COUNT.try_with(|c| c.set(c.get() + 1));
        }
    });
}

unsafe impl GlobalAlloc for CountingAlloc {
    unsafe fn alloc(&self, l: Layout) -> *mut u8 {
        bump();
        System.alloc(l)
    }
    unsafe fn alloc_zeroed(&self, l: Layout) -> *mut u8 {
        bump();
        System.alloc_zeroed(l)
    }
    unsafe fn realloc(&self, p: *mut u8, l: Layout, n: usize) -> *mut u8 {
        bump();
        System.realloc(p, l, n)
    }
    unsafe fn dealloc(&self, p: *mut u8, l: Layout) {
        System.dealloc(p, l)
    }
}

pub fn arm() {
    COUNT.with(|c| c.set(0));
    ARMED.with(|a| a.set(true));
}

/// stops counting and returns the number of allocations since `arm()`
pub fn disarm() -> u64 {
    ARMED.with(|a| a.set(false));
    COUNT.with(|c| c.get())
}
