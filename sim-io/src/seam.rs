//! The simulated seams: byte source (Read + Seek), byte sink (Write) and
//! growth policy (BufPolicy). All decisions come from the scenario; everything
//! that happens is recorded in a shared `SeamLog`.

use crate::scn::{kind_from_name, Cfg, Fault, PolicySpec};
use seq_io::policy::{BufPolicy, DoubleUntil, DoubleUntilLimited, StdPolicy};
use std::cell::RefCell;
use std::io::{self, ErrorKind, Read, Seek, SeekFrom, Write};
use std::rc::Rc;

pub const HANG_MARK: &str = "SIM-HANG";

#[derive(Default, Clone, Debug)]
pub struct OpSeam {
    pub reads: u32,
    pub read_bytes: u64,
    pub interrupts: u32,
    pub eofs: u32,
    pub seeks: u32,
    /// (argument, result) of every grow_to call during the op
    pub grows: Vec<(usize, Option<usize>)>,
    /// kinds of injected faults that fired during the op
    pub faults: Vec<String>,
    /// how many of them fired in a seek call of the source (which then has not moved)
    pub seek_faults: u32,
    /// request size of the first / last read of the op
    pub first_req: Option<usize>,
    pub last_req: Option<usize>,
    /// source position before each read that delivered data, (pos, n)
    pub first_read_pos: Option<usize>,
    /// a read was issued although no grow_to preceded it in this op and it was not the first fill
    pub steps: u64,
}

#[derive(Default, Debug)]
pub struct SeamLog {
    /// number of source calls so far (reads + seeks), the index space of `Fault::call`
    pub calls: usize,
    pub op: OpSeam,
    pub total_steps: u64,
    pub budget_per_op: u64,
    /// rolling hash of every seam event (determinism self-test)
    pub hash: u64,
    /// every grow_to call of the whole run: (argument, result)
    pub all_grows: Vec<(usize, Option<usize>)>,
    /// request size observed on the most recent read that started from an empty buffer (after a
    /// real seek or the first fill) = capacity of the reader as seen through the seam
    pub last_full_req: Option<usize>,
    pub total_reads: u64,
    pub total_interrupts: u64,
    pub total_faults: u64,
    pub total_seeks: u64,
    pub total_eofs: u64,
    pub false_eofs: u64,
    /// a grow_to call for a buffer beyond this size counts as runaway growth (default 64 MiB;
    /// raised for inputs of tens of MiB)
    pub growth_limit: usize,
    /// a read filled the request completely and the last byte delivered was '\n' / '\r'
    pub full_nl: u64,
    pub full_cr: u64,
    /// a read was answered with fewer bytes than requested although more input remained
    pub short_reads: u64,
}

impl SeamLog {
    #[inline]
    fn ev(&mut self, tag: u64, a: u64, b: u64) {
        self.hash = vcore::mix(self.hash ^ tag, a.wrapping_mul(0x9E3779B97F4A7C15) ^ b);
    }
    #[inline]
    fn step(&mut self) {
        self.op.steps += 1;
        self.total_steps += 1;
        if self.budget_per_op > 0 && self.op.steps > self.budget_per_op {
            panic!("{}: step budget {} exceeded within one operation", HANG_MARK, self.budget_per_op);
        }
    }
    pub fn begin_op(&mut self) {
        self.op = OpSeam::default();
    }
}

pub type Seam = Rc<RefCell<SeamLog>>;

pub fn new_seam(budget_per_op: u64) -> Seam {
    Rc::new(RefCell::new(SeamLog {
        budget_per_op,
        ..Default::default()
    }))
}

// ---------------------------------------------------------------------------

pub struct SimSource {
    data: Rc<Vec<u8>>,
    pos: usize,
    script: Vec<u32>,
    script_i: usize,
    cuts: Vec<usize>,
    faults: Vec<Fault>,
    consecutive_intr: u32,
    intr_burst: Option<(usize, usize)>,
    pause: Option<usize>,
    seam: Seam,
}

impl SimSource {
    /// a source over `data[from..]` (offsets reported to the reader start at 0 again)
    pub fn new_from(data: Rc<Vec<u8>>, from: usize, cfg: &Cfg, seam: Seam) -> SimSource {
        let tail = Rc::new(data[from.min(data.len())..].to_vec());
        let mut c = cfg.clone();
        c.cuts = cfg.cuts.iter().filter(|x| **x > from).map(|x| x - from).collect();
        // faults are scheduled by global call index and stay as they are
        SimSource::new(tail, &c, seam)
    }

    pub fn new(data: Rc<Vec<u8>>, cfg: &Cfg, seam: Seam) -> SimSource {
        let mut cuts = cfg.cuts.clone();
        cuts.sort();
        SimSource {
            data,
            pos: 0,
            script: cfg.script.clone(),
            script_i: 0,
            cuts,
            faults: cfg.faults.clone(),
            consecutive_intr: 0,
            intr_burst: cfg.intr_burst,
            pause: cfg.pause,
            seam,
        }
    }

    fn fault_at(&self, call: usize, is_seek: bool) -> Option<(ErrorKind, io::Error)> {
        // (call == usize::MAX: every seek call of the source fails)
        self.faults.iter().find(|f| f.call == call || (is_seek && f.call == usize::MAX)).map(|f| {
            let e = build_fault(f, call, is_seek);
            (e.kind(), e)
        })
    }
}

/// The io::Error a `Fault` stands for (the kind that must come back is always the outer one).
pub fn build_fault(f: &Fault, call: usize, is_seek: bool) -> io::Error {
    // "SeekInterrupted": a *seek* of the source that fails with kind Interrupted ("any other error
    // raised during a seek": only interrupted reads are retried); if the call turns out to be a
    // read, an ordinary error is injected instead
    if f.kind == SEEK_INTERRUPTED {
        return io::Error::from(if is_seek { ErrorKind::Interrupted } else { ErrorKind::Other });
    }
    let kind = kind_from_name(&f.kind);
    if f.payload.is_empty() {
        io::Error::from(kind)
    } else if f.payload == "msg" {
        io::Error::new(kind, "injected fault with a message")
    } else if let Some(k2) = f.payload.strip_prefix("nested:") {
        io::Error::new(kind, io::Error::from(kind_from_name(k2)))
    } else if let Some(code) = f.payload.strip_prefix("os:") {
        // an error that comes from the operating system: it carries a raw code, its kind is
        // whatever std maps the code to (the `kind` field of the fault is ignored)
        io::Error::from_raw_os_error(code.parse().unwrap_or(5))
    } else if f.payload == "seqio" {
        // an error value of seq_io itself as payload
        if call % 2 == 0 {
            io::Error::new(kind, seq_io::fastq::Error::BufferLimit)
        } else {
            io::Error::new(kind, seq_io::fasta::Error::InvalidStart { line: 1, found: b'x' })
        }
    } else {
        io::Error::from(kind)
    }
}

/// what the reader has to hand back for this fault (see `scn::io_label`)
pub fn fault_label(f: &Fault) -> String {
    crate::scn::io_label(&build_fault(f, f.call, false))
}

pub const SEEK_INTERRUPTED: &str = "SeekInterrupted";

impl Read for SimSource {
    fn read(&mut self, buf: &mut [u8]) -> io::Result<usize> {
        let mut log = self.seam.borrow_mut();
        log.step();
        let call = log.calls;
        log.calls += 1;
        log.op.reads += 1;
        log.total_reads += 1;
        if log.op.first_req.is_none() {
            log.op.first_req = Some(buf.len());
        }
        log.op.last_req = Some(buf.len());
        if let Some((kind, err)) = self.fault_at(call, false) {
            log.op.faults.push(crate::scn::io_label(&err));
            log.total_faults += 1;
            log.ev(3, call as u64, kind as u64);
            return Err(err);
        }
        if let Some((at, len)) = self.intr_burst {
            if call >= at && call < at + len {
                log.op.interrupts += 1;
                log.total_interrupts += 1;
                log.ev(2, call as u64, 1);
                return Err(io::Error::from(ErrorKind::Interrupted));
            }
        }
        // scripted decision
        let mut want = usize::MAX;
        if !self.script.is_empty() {
            let d = self.script[self.script_i % self.script.len()];
            self.script_i += 1;
            if d == 0 {
                if self.consecutive_intr < 6 {
                    self.consecutive_intr += 1;
                    log.op.interrupts += 1;
                    log.total_interrupts += 1;
                    log.ev(2, call as u64, 0);
                    return Err(io::Error::from(ErrorKind::Interrupted));
                }
            } else {
                want = d as usize;
            }
        }
        self.consecutive_intr = 0;
        let remaining = self.data.len().saturating_sub(self.pos);
        if self.pause == Some(call) && remaining > 0 && !buf.is_empty() {
            log.op.eofs += 1;
            log.total_eofs += 1;
            log.false_eofs += 1;
            log.ev(1, call as u64, 1);
            return Ok(0);
        }
        let mut n = want.min(buf.len()).min(remaining);
        if n > 0 {
            // stop at the next cut strictly after pos
            if let Some(&c) = self.cuts.iter().find(|&&c| c > self.pos) {
                n = n.min(c - self.pos);
            }
        }
        if buf.is_empty() {
            log.ev(1, call as u64, 0);
            return Ok(0);
        }
        if n == 0 {
            log.op.eofs += 1;
            log.total_eofs += 1;
            log.ev(1, call as u64, 0);
            return Ok(0);
        }
        buf[..n].copy_from_slice(&self.data[self.pos..self.pos + n]);
        if log.op.first_read_pos.is_none() {
            log.op.first_read_pos = Some(self.pos);
        }
        self.pos += n;
        if n == buf.len() {
            match buf[n - 1] {
                b'\n' => log.full_nl += 1,
                b'\r' => log.full_cr += 1,
                _ => {}
            }
        } else if self.pos < self.data.len() {
            log.short_reads += 1;
        }
        log.op.read_bytes += n as u64;
        log.ev(1, buf.len() as u64, n as u64);
        Ok(n)
    }
}

impl Seek for SimSource {
    fn seek(&mut self, pos: SeekFrom) -> io::Result<u64> {
        let mut log = self.seam.borrow_mut();
        log.step();
        let call = log.calls;
        log.calls += 1;
        log.op.seeks += 1;
        log.total_seeks += 1;
        if let Some((kind, err)) = self.fault_at(call, true) {
            log.op.faults.push(crate::scn::io_label(&err));
            log.op.seek_faults += 1;
            log.total_faults += 1;
            log.ev(5, call as u64, kind as u64);
            return Err(err);
        }
        let new = match pos {
            SeekFrom::Start(p) => p as i128,
            SeekFrom::End(d) => self.data.len() as i128 + d as i128,
            SeekFrom::Current(d) => self.pos as i128 + d as i128,
        };
        if new < 0 {
            return Err(io::Error::new(ErrorKind::InvalidInput, "seek before start"));
        }
        self.pos = new as usize;
        log.ev(4, call as u64, new as u64);
        Ok(new as u64)
    }
}

// ---------------------------------------------------------------------------

/// Sink decisions: cyclic script, k > 0 = accept at most k bytes, 0 = Interrupted.
pub struct SimSink {
    pub out: Vec<u8>,
    script: Vec<u32>,
    script_i: usize,
    consecutive_intr: u32,
    /// fail the n-th write call (0-based) with this kind
    fail_at: Option<(usize, ErrorKind)>,
    pub calls: usize,
    pub interrupts: usize,
    pub short_writes: usize,
    pub faults: usize,
    pub flushes: usize,
    /// a sink with a real gathering `write_vectored` (socket / pipe like): one call takes bytes
    /// from several slices and may stop in the middle of any of them
    pub gather: bool,
    pub vectored_calls: usize,
    pub vectored_mid_slice: usize,
}

impl SimSink {
    pub fn new(script: &[u32], fail_at: Option<(usize, ErrorKind)>) -> SimSink {
        SimSink {
            out: vec![],
            script: script.to_vec(),
            script_i: 0,
            consecutive_intr: 0,
            fail_at,
            calls: 0,
            interrupts: 0,
            short_writes: 0,
            faults: 0,
            flushes: 0,
            gather: false,
            vectored_calls: 0,
            vectored_mid_slice: 0,
        }
    }
    pub fn gathering(script: &[u32], fail_at: Option<(usize, ErrorKind)>) -> SimSink {
        let mut s = SimSink::new(script, fail_at);
        s.gather = true;
        s
    }
    /// one scripted decision: Err = this call fails, Ok(n) = accept at most n bytes
    fn decide(&mut self) -> io::Result<usize> {
        let call = self.calls;
        self.calls += 1;
        if self.calls > 10_000_000 {
            panic!("{}: sink call budget exceeded", HANG_MARK);
        }
        if let Some((k, kind)) = self.fail_at {
            if k == call {
                self.faults += 1;
                return Err(io::Error::from(kind));
            }
        }
        let mut want = usize::MAX;
        if !self.script.is_empty() {
            let d = self.script[self.script_i % self.script.len()];
            self.script_i += 1;
            if d == 0 {
                if self.consecutive_intr < 6 {
                    self.consecutive_intr += 1;
                    self.interrupts += 1;
                    return Err(io::Error::from(ErrorKind::Interrupted));
                }
            } else {
                want = d as usize;
            }
        }
        self.consecutive_intr = 0;
        Ok(want)
    }
}

impl Write for SimSink {
    fn write_vectored(&mut self, bufs: &[io::IoSlice<'_>]) -> io::Result<usize> {
        if !self.gather {
            // what std's default does: the first non-empty slice only
            let buf = bufs.iter().find(|b| !b.is_empty()).map_or(&[][..], |b| &**b);
            return self.write(buf);
        }
        self.vectored_calls += 1;
        let total: usize = bufs.iter().map(|b| b.len()).sum();
        let mut left = self.decide()?.min(total);
        let n = left;
        if n < total {
            self.short_writes += 1;
        }
        for b in bufs {
            if left == 0 {
                break;
            }
            let k = left.min(b.len());
            if k < b.len() {
                self.vectored_mid_slice += 1;
            }
            self.out.extend_from_slice(&b[..k]);
            left -= k;
        }
        Ok(n)
    }
    fn write(&mut self, buf: &[u8]) -> io::Result<usize> {
        let call = self.calls;
        self.calls += 1;
        if self.calls > 10_000_000 {
            panic!("{}: sink call budget exceeded", HANG_MARK);
        }
        if let Some((k, kind)) = self.fail_at {
            if k == call {
                self.faults += 1;
                return Err(io::Error::from(kind));
            }
        }
        let mut want = usize::MAX;
        if !self.script.is_empty() {
            let d = self.script[self.script_i % self.script.len()];
            self.script_i += 1;
            if d == 0 {
                if self.consecutive_intr < 6 {
                    self.consecutive_intr += 1;
                    self.interrupts += 1;
                    return Err(io::Error::from(ErrorKind::Interrupted));
                }
            } else {
                want = d as usize;
            }
        }
        self.consecutive_intr = 0;
        let n = want.min(buf.len());
        if n < buf.len() {
            self.short_writes += 1;
        }
        self.out.extend_from_slice(&buf[..n]);
        Ok(n)
    }
    fn flush(&mut self) -> io::Result<()> {
        self.flushes += 1;
        Ok(())
    }
}

// ---------------------------------------------------------------------------

pub struct SimPolicy {
    spec: PolicySpec,
    grants: usize,
    /// requests so far (granted or not)
    calls: usize,
    seam: Seam,
}

impl SimPolicy {
    pub fn new(spec: PolicySpec, seam: Seam) -> SimPolicy {
        SimPolicy {
            spec,
            grants: 0,
            calls: 0,
            seam,
        }
    }
}

pub fn policy_eval(spec: &PolicySpec, grants: usize, calls: usize, cur: usize) -> Option<usize> {
    match spec {
        PolicySpec::Std => StdPolicy.grow_to(cur),
        PolicySpec::DoubleUntil(k) => DoubleUntil(*k).grow_to(cur),
        PolicySpec::DoubleUntilLimited(k, l) => DoubleUntilLimited::new(*k, *l).grow_to(cur),
        PolicySpec::Add(k) => Some(cur + (*k).max(1)),
        PolicySpec::Mul(k) => Some(cur * (*k).max(2)),
        PolicySpec::JumpTo(k) => Some((cur + 1).max(*k)),
        PolicySpec::Refuse => None,
        PolicySpec::RefuseAfter(n) => {
            if grants >= *n {
                None
            } else {
                Some(cur * 2)
            }
        }
        PolicySpec::DoubleLimit(l) => {
            if cur * 2 > *l {
                None
            } else {
                Some(cur * 2)
            }
        }
        PolicySpec::Stall(k) => {
            if grants < *k {
                Some(cur)
            } else {
                Some(cur * 2)
            }
        }
        PolicySpec::RefuseFirst(k) => {
            if calls < *k {
                None
            } else {
                Some(cur * 2)
            }
        }
    }
}

impl BufPolicy for SimPolicy {
    fn grow_to(&mut self, current_size: usize) -> Option<usize> {
        let mut log = self.seam.borrow_mut();
        log.step();
        if current_size > log.growth_limit.max(1 << 26) {
            panic!("{}: runaway buffer growth (grow_to({}))", HANG_MARK, current_size);
        }
        let res = policy_eval(&self.spec, self.grants, self.calls, current_size);
        self.calls += 1;
        if res.is_some() {
            self.grants += 1;
        }
        log.op.grows.push((current_size, res));
        log.all_grows.push((current_size, res));
        log.ev(6, current_size as u64, res.map(|x| x as u64 + 1).unwrap_or(0));
        res
    }
}
